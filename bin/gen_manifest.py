#!/venv/bin/python
"""Regenerates MANIFEST.json from the table below (kept in one place so it stays valid)."""
import json, os
ROOT = os.path.dirname(os.path.dirname(os.path.abspath(__file__)))
props = [json.loads(l) for l in open(os.path.join(ROOT, "properties.jsonl"))]

CLAIMED = {
 "C01": dict(category="model_checking",
   text="TLC enumerates exhaustively the one-call behaviours of spec/Cases.tla (every operation of the method table x the stratified exact rational lattice); each expected result is a function of the operands' denotation only (Algebra.tla never sees the storage). Every case is replayed through the public API in the admissible coordinate-system signatures on a 60-digit mpmath object backend and on float64, and compared with the expectation at 1e-40 / 1e-9; a signature whose result differs is a C01 violation.",
   design_ref="DESIGN.md section 6 C01, section 13",
   note="lattice stands in for 'all real operands'; gamma/alpha (coords.py), term evaluator and MpLib are trusted; TLC 1.8",
   technique="TLA+ spec (Algebra/Cases) + TLC exhaustive case generation + spec->code replay in every coordinate signature"),
 "C02": dict(category="model_checking",
   text="Same behaviours as C01; the all-Cartesian run of every case must equal the value defined by Algebra.tla, which is written from the documentation and is itself checked against the algebraic laws (Laws.tla: TLC on the lattice, TLAPS for all integers). float64 accuracy is a sampled comparator check (1e-9 relative to the natural scale).",
   design_ref="DESIGN.md section 6 C02",
   note="definitions in Algebra.tla carry the documentation's conventions; float64 rounding clause sampled only",
   technique="TLA+ definitions as oracle, TLC-enumerated cases replayed on mp (60 digits) and float64 object backends"),
 "C13": dict(category="model_checking",
   text="TLC computes the exact three-valued expectation (T / F / either-on-exact-tie) of the six predicates on small-norm lattice pairs x tolerance grid through signed-square comparisons, and the documented ranges/sign conventions are asserted on every accessor result of the replay (all signatures, mp and float64).",
   design_ref="DESIGN.md section 6 C13",
   note="tolerances restricted to small denominators (32-bit TLC integers); default 1e-5 tolerance covered by monotonic sandwich only",
   technique="TLA+ exact predicate semantics + TLC enumeration + replay; range postconditions on every accessor call"),
 "C09": dict(category="model_checking",
   text="spec/Laws.tla is a state machine executing straight-line programs of public calls (one call per step); TLC enumerates every program of the boost laws (Minkowski product preserved, inverse, velocity addition along an axis, the boost_p4/boost_beta3/boostX-Y-Z beta/gamma/boost()/boostCM_of* spellings, rest frame of boostCM_of_p4) over the exact lattice and checks the invariant LawHolds on the specification's own definitions; every finished behaviour is replayed step by step into the real code with operands stored in varying coordinate systems, each register compared with the specification's and each law evaluated on the code's own outputs (mp 1e-40, float64 1e-9). Thorough adds the TLAPS proofs of the underlying polynomial identities for all integers.",
   design_ref="DESIGN.md section 6 C09, section 13",
   note="lattice incl. beta = 4900/4901; result systems chosen by the code; TLAPS covers the specification side only",
   technique="TLA+ state machine of call programs (Laws.tla), TLC invariant LawHolds, behaviours replayed into the code; TLAPS/Z3 for the polynomial laws"),
 "C10": dict(category="model_checking",
   text="As C09 for rotations: lengths/dot/handedness preserved, time untouched, additivity and inverse about a fixed axis, rotate_axis about coordinate axes = rotateX/Y/Z with axis length ignored, quaternion (cos a/2, n sin a/2) = rotate_axis(n, a), rotate_euler for all 12 orders in both letter cases = documented product of three axis rotations, rotate_nautical = rotate_euler(roll, pitch, yaw, 'zyx'); plus every one-call rotation case of Cases.tla in every coordinate signature.",
   design_ref="DESIGN.md section 6 C10, section 13",
   note="angles are rational points of the unit circle concretised with 2 pi k offsets (large angles)",
   technique="TLA+ state machine of call programs (Laws.tla), TLC invariant LawHolds, behaviours replayed into the code; TLAPS/Z3 for the polynomial laws"),
 "C11": dict(category="model_checking",
   text="As C09 for the vector-space laws: commutativity/associativity of add, subtract as inverse, distributivity and composition of scale, negation, symmetric bilinear dot (Euclidean/Minkowski) with v.v = rho2/mag2/tau2, cross antisymmetric/orthogonal/Lagrange, unit() of norm one and parallel, abs/**2/numpy.sqrt/cbrt/power as functions of the norm; operators (+ - * / unary -) are used interchangeably with the methods in the replay.",
   design_ref="DESIGN.md section 6 C11, section 13",
   note="polar-specialised add/subtract/scale are reached because intermediate results stay in the system the code returned",
   technique="TLA+ state machine of call programs (Laws.tla), TLC invariant LawHolds, behaviours replayed into the code; TLAPS/Z3 for the polynomial laws"),
 "C05": dict(category="model_checking",
   text="spec/Types.tla states the rules (priority object < NumPy < Awkward with array-vs-record shape, flavor, dimension, TypeError cases, operators as methods) as Required(method, descriptor, descriptor); TLC enumerates the whole finite lattice of 69 public methods/operators x (4 backends x 2 flavors x 3 dimensions)^2 and checks the rule invariants; every state is executed on small containers and the result's container, flavor, dimension compared with Required; the result coordinate system must be a function of (method, operand systems) across all descriptors (learned table). Thorough executes every coordinate-system pairing for every descriptor.",
   design_ref="DESIGN.md section 6 C05, section 13",
   note="values are two fixed well-conditioned points; unregistered Awkward mode",
   technique="TLA+ rule table (Types.tla) enumerated exhaustively by TLC; each state executed against the API; learned functional table for result systems"),
 "C06": dict(category="model_checking",
   text="spec/Names.tla defines Classify(S) for a set of names; TLC enumerates all 16 664 subsets of at most 5 of the 19 names with the invariants SizeMatches, SynonymInvariant, TemporalNeedsLongitudinal; every set is passed with pairwise distinct values to vector.obj, the six object classes, vector.array, vector.zip and vector.Array and the outcome (TypeError / dimension / system / flavor / stored values) compared with Classify; the value-type clause is executed on 7 documented sets x 11 value types.",
   design_ref="DESIGN.md section 6 C06",
   note="exhaustive over the stated lattice in both tiers",
   technique="TLA+ classification (Names.tla) enumerated exhaustively by TLC; every state executed against all ten constructors"),
 "C14": dict(category="model_checking",
   text="spec/Synonyms.tla is the synonym table (getters, setters, 20 conversions, momentum/generic twins) x 20 systems x 5 backends; TLC enumerates it exhaustively and checks it is functional and closed; each use of a synonym is executed next to the same use of the geometric name (read, assign, NumPy field access and item assignment, conversion with and without keyword spellings, construction) and must be bit-identical.",
   design_ref="DESIGN.md section 6 C14",
   note="bit-for-bit comparison needs no numeric oracle",
   technique="TLA+ synonym table (Synonyms.tla) enumerated exhaustively by TLC; paired execution synonym vs geometric name, bit-for-bit"),
 "C15": dict(category="model_checking",
   text="spec/ObjectSM.tla is a state machine over one mutable object vector (stored record per coordinate group; actions Set(name, value) for all nine coordinates, += -= *= /=, and operations that must raise); TLC explores it exhaustively to length 2 (quick) / 3 (thorough) from every coordinate system and flavor and by random simulation to depth 6 / 10, checking the six safety properties (ReadsBack, PartnerPreserved, OtherGroupsUntouched, InPlaceKeepsSystem, InPlaceIsFunctional, RaiseLeavesUnchanged) as action properties. Every generated history is replayed step by step into real object vectors (60-digit and float64; momentum spellings chosen among synonyms; in-place operands in varying systems and flavors) with the object compared with the specification state after each step and the same properties asserted on the object itself. Conversely random sessions on real objects are recorded and each event is validated by TLC against ObjectSMTrace.tla (total verdicts).",
   design_ref="DESIGN.md section 6 C15, section 13",
   note="exact comparison while stored values stay rational, numeric (replay) or structural (trace) otherwise",
   technique="TLA+ state machine (ObjectSM.tla) model-checked with action properties; behaviours replayed into real objects; recorded traces validated by TLC (ObjectSMTrace.tla)"),
 "C16": dict(category="model_checking",
   text="Frame conditions as a trace specification: every call of a catalogue covering every executed state of Types.tla (all public methods and operators x backend pairings x flavors x dimensions) plus reductions, indexing, copying, pickling, printing, container conversions and constructors fed the caller's own arrays/dtypes is run under four prior settings in unregistered and registered mode; bit-level digests (raw bytes, dtype descr and names, shape, class, Awkward form+buffers) of every operand are logged before and after each call and TLC validates every event against SessionTrace.tla, whose step for a non-assignment call is UNCHANGED operands.",
   design_ref="DESIGN.md section 6 C16, section 13",
   note="digest functions are trusted; explicit in-place operators and setters are C15",
   technique="TLA+ trace specification (SessionTrace.tla) validating recorded call events with operand digests"),
 "C20": dict(category="model_checking",
   text="(a) spec/Globals.tla models process state and per-thread numpy.errstate contexts; TLC explores all interleavings of Enter/Exit/Register for 2-4 threads under each prior error mode (GlobalsRestored, RegisterIdempotent, ResultsEqualSequential, OnlyRegisterChangesRegistry) and the negative configuration with a process-global error state must produce a counterexample. (b) Every catalogued call is executed in fresh processes under four prior NumPy/warnings/print-option settings, unregistered and registered (register_awkward twice); the fingerprint of numpy.geterr, warnings.filters, print options, ak.behavior and vector._awkward_registered is logged before and after each call, returning or raising, and validated by TLC against SessionTrace.tla with per-thread continuity. (c) The same call list is run sequentially and on 8/16 threads; results must be bit-identical and every thread's trace is validated.",
   design_ref="DESIGN.md section 6 C20, section 13",
   note="real schedules are sampled under a 1 microsecond switch interval; the specification enumerates them",
   technique="TLA+ model of globals and thread contexts (Globals.tla) model-checked incl. negative configuration; recorded per-call fingerprints validated by TLC (SessionTrace.tla); thread runs compared bit-for-bit"),
}

def entry(pid, c):
    return {
        "property_id": pid,
        "quick_cmd": f"bin/check {pid} --tier quick",
        "thorough_cmd": f"bin/check {pid} --tier thorough",
        "evidence_file": f"/verif/evidence/{pid}.json",
        "replay_cmd_template": f"bin/check {pid} --replay {{path}}",
        "engine": "tlc-replay",
        "level_claimed": {"category": c["category"], "text": c["text"], "design_ref": c["design_ref"]},
        "level_note": c["note"],
        "technique": c["technique"],
    }

NOT_YET = "check under construction in this round (specification module not bound to the code yet); will be claimed when its conformance harness exists"
manifest = {
 "version": 1,
 "setup_cmd": "bin/setup",
 "hooks": {
   "guard": "SCIKIT_HEP_VECTOR_VERIF",
   "enable": "no source hooks: bin/check sets SCIKIT_HEP_VECTOR_VERIF=1 and observes the library through its public API and an external tracer; /repo is imported editable from /repo/src so every check sees the current working tree",
   "baseline_off_cmd": "cd /repo && env -u SCIKIT_HEP_VECTOR_VERIF /venv/bin/python -m pytest -ra -q -p no:cacheprovider --timeout=900 --continue-on-collection-errors",
   "source_commits": [],
   "add_only": True,
 },
 "engines": [
   {"name": "tlc-replay", "path": "/verif/harness/vverif", "serves_properties": sorted(CLAIMED),
    "kind_free_text": "TLA+ specifications in /verif/spec checked/enumerated by TLC; spec->code replay and code->spec trace validation harness in Python"},
 ],
 "checks": [entry(p, CLAIMED[p]) for p in sorted(CLAIMED)],
 "notes": "Repairs of genuine defects are 'fix:' commits in /repo, listed in known_findings.json together with recorded findings.",
 "not_applicable": [{"property_id": p["id"], "reason": NOT_YET} for p in props if p["id"] not in CLAIMED],
}
json.dump(manifest, open(os.path.join(ROOT, "MANIFEST.json"), "w"), indent=1)
print("claimed", sorted(CLAIMED), "not_applicable", len(manifest["not_applicable"]))
