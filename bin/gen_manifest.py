#!/venv/bin/python
"""Regenerates MANIFEST.json from the table below (kept in one place so it stays valid)."""
import json, os
ROOT = os.path.dirname(os.path.dirname(os.path.abspath(__file__)))
props = [json.loads(l) for l in open(os.path.join(ROOT, "properties.jsonl"))]

CLAIMED = {
 "C01": dict(category="model_checking",
   text="TLC enumerates exhaustively the one-call behaviours of spec/Cases.tla (every operation of the method table x the stratified exact rational lattice); each expected result is a function of the operands' denotation only (Algebra.tla never sees the storage). Every case is replayed through the public API in the admissible coordinate-system signatures on a 60-digit mpmath object backend and on float64, and compared with the expectation at 1e-40 / 1e-9; a signature whose result differs is a C01 violation.",
   design_ref="DESIGN.md section 6 C01, section 13",
   note="lattice stands in for 'all real operands'; gamma/alpha (coords.py), term evaluator and MpLib are trusted; TLC 1.8",
   technique="TLA+ spec (Algebra/Cases) + TLC exhaustive case generation + spec->code replay in every coordinate signature"),
 "C02": dict(category="model_checking",
   text="Same behaviours as C01; the all-Cartesian run of every case must equal the value defined by Algebra.tla, which is written from the documentation and is itself checked against the algebraic laws (Laws.tla: TLC on the lattice, TLAPS for all integers). float64 accuracy is a sampled comparator check (1e-9 relative to the natural scale).",
   design_ref="DESIGN.md section 6 C02",
   note="definitions in Algebra.tla carry the documentation's conventions; float64 rounding clause sampled only",
   technique="TLA+ definitions as oracle, TLC-enumerated cases replayed on mp (60 digits) and float64 object backends"),
 "C13": dict(category="model_checking",
   text="TLC computes the exact three-valued expectation (T / F / either-on-exact-tie) of the six predicates on small-norm lattice pairs x tolerance grid through signed-square comparisons, and the documented ranges/sign conventions are asserted on every accessor result of the replay (all signatures, mp and float64).",
   design_ref="DESIGN.md section 6 C13",
   note="tolerances restricted to small denominators (32-bit TLC integers); default 1e-5 tolerance covered by monotonic sandwich only",
   technique="TLA+ exact predicate semantics + TLC enumeration + replay; range postconditions on every accessor call"),
}

def entry(pid, c):
    return {
        "property_id": pid,
        "quick_cmd": f"bin/check {pid} --tier quick",
        "thorough_cmd": f"bin/check {pid} --tier thorough",
        "evidence_file": f"/verif/evidence/{pid}.json",
        "replay_cmd_template": f"bin/check {pid} --replay {{path}}",
        "engine": "tlc-replay",
        "level_claimed": {"category": c["category"], "text": c["text"], "design_ref": c["design_ref"]},
        "level_note": c["note"],
        "technique": c["technique"],
    }

NOT_YET = "check under construction in this round (specification module not bound to the code yet); will be claimed when its conformance harness exists"
manifest = {
 "version": 1,
 "setup_cmd": "bin/setup",
 "hooks": {
   "guard": "SCIKIT_HEP_VECTOR_VERIF",
   "enable": "no source hooks: bin/check sets SCIKIT_HEP_VECTOR_VERIF=1 and observes the library through its public API and an external tracer; /repo is imported editable from /repo/src so every check sees the current working tree",
   "baseline_off_cmd": "cd /repo && env -u SCIKIT_HEP_VECTOR_VERIF /venv/bin/python -m pytest -ra -q -p no:cacheprovider --timeout=900 --continue-on-collection-errors",
   "source_commits": [],
   "add_only": True,
 },
 "engines": [
   {"name": "tlc-replay", "path": "/verif/harness/vverif", "serves_properties": sorted(CLAIMED),
    "kind_free_text": "TLA+ specifications in /verif/spec checked/enumerated by TLC; spec->code replay and code->spec trace validation harness in Python"},
 ],
 "checks": [entry(p, CLAIMED[p]) for p in sorted(CLAIMED)],
 "notes": "Repairs of genuine defects are 'fix:' commits in /repo, listed in known_findings.json together with recorded findings.",
 "not_applicable": [{"property_id": p["id"], "reason": NOT_YET} for p in props if p["id"] not in CLAIMED],
}
json.dump(manifest, open(os.path.join(ROOT, "MANIFEST.json"), "w"), indent=1)
print("claimed", sorted(CLAIMED), "not_applicable", len(manifest["not_applicable"]))
