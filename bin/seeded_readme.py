#!/venv/bin/python
"""Regenerates seeded/README.md (the detection matrix) from seeded/*/meta.json."""
import glob, json, os
ROOT = os.path.dirname(os.path.dirname(os.path.abspath(__file__)))
rows = []
for d in sorted(glob.glob(os.path.join(ROOT, "seeded", "*", "meta.json"))):
    m = json.load(open(d))
    name = os.path.basename(os.path.dirname(d))
    checks = []
    for c in m.get("checks_run", []):
        pid, ex, nv = c.split(":")
        checks.append(f"{pid} {'**VIOLATION**' if ex == 'exit=1' else 'passes'}")
    rows.append((name, m.get("breaks_property", "?"), m.get("summary", "").replace("|", "/")[:230], m.get("needs", "").replace("|", "/")[:260],
                 ", ".join(checks) + ((" - " + m["note"]) if m.get("note") else "")))
out = ["# Seeded changes", "",
       "Each directory holds a change to scikit-hep/vector produced by an independent sub-agent that was given only the text of one",
       "property and a scratch worktree (nothing from /verif): `patch.diff`, the agent's demonstration `demo.py` (passes without the change, fails",
       "with it), and `meta.json` (what it breaks, what it needs to manifest, what was run to confirm it). Every change was confirmed with",
       "`bin/seeded_eval`: demo exit codes with/without the change, the repository's 795 stable tests with the change applied, and the quick",
       "check(s) run against the changed worktree (`VERIF_REPO=<worktree> bin/check <id> --tier quick`). None of these changes is committed to /repo.", "",
       "| seeded change | property | change | needs | quick checks (final state of the machinery) |", "|---|---|---|---|---|"]
for r in rows:
    out.append("| " + " | ".join(r) + " |")
out += ["", "Changes that were first missed and what was strengthened are listed in DESIGN.md section 13.6.", ""]
open(os.path.join(ROOT, "seeded", "README.md"), "w").write("\n".join(out))
print(len(rows), "seeded changes")
