"""spec -> code replay of the one-call cases of Cases.tla (C01, C02, C13 and the
value part of C09-C11): every case is run through the real public API in every
admissible coordinate system and compared with the specification's expectation.
"""
from __future__ import annotations

import hashlib
import itertools
import json
import math
import os

import mpmath

from . import coords, terms
from .coords import CANON, signatures, representable, store, project, to_mpf

mpf = mpmath.mpf
PI = mpmath.pi

MP_TOL = mpf(10) ** -40
F64_TOL = mpf(10) ** -9
# results sitting exactly on a square-root / arccos branch point computed through rounded
# (non-Cartesian) storage carry sqrt(rounding) errors: 1e-30 at 60 digits, 1e-8 in float64
SING_MP = mpf(10) ** -24
SING_F64 = mpf(10) ** -6
_PI = mpmath.pi
SQRT_LIKE = {"tau": (0,), "abs": (0,), "Mt": (0,), "Et": (0,), "rho": (0,), "mag": (0,), "deltaR": (0,),
             "deltaRapidityPhi": (0,), "deltaangle": (0, _PI), "theta": (0, _PI), "beta": (1, -1),
             "np_sqrt": (0,), "np_cbrt": (0,), "np_power": (0,)}
# numpy.sqrt / cbrt / power(v, e) are norm2 ** (e / 2): on the branch point norm = 0 a rounding-sized norm2 (1e-60 or
# 1e-16 scale^2 through non-Cartesian storage) comes out as its 4th / 6th root
ROOT_OF_NORM2 = {"np_sqrt", "np_cbrt", "np_power"}


# --------------------------------------------------------------------------- params
def _h(case, salt=""):
    s = json.dumps([case["op"], case["a"], case["b"], case["p"]], sort_keys=True) + salt
    return int(hashlib.sha256(s.encode()).hexdigest()[:8], 16)


def rat(t):
    return mpf(t[1]) / mpf(t[2])


def vec_of(a):
    return [rat(c) for c in a]


ANGLE_OFFSETS = (0, 0, 1, -1, 2, -3, 10000)


def angle_of(g, k):
    """Concrete angle of the circle point g = (cos, sin): principal value + 2 pi k."""
    c, s = rat(g[0]), rat(g[1])
    return mpmath.atan2(s, c) + 2 * PI * k


LETTERS = "xyzt"


def matrix_of(m, number):
    return {LETTERS[i] + LETTERS[j]: number(rat(m[i][j])) for i in range(len(m)) for j in range(len(m))}


class Skip(Exception):
    pass


def call_op(case, A, B, number, large_angles=True, inplace_ok=False):
    """Invoke the public API for `case` on concrete operands A (and B).  Returns raw result."""
    op, p = case["op"], case["p"]
    hk = _h(case)
    k = ANGLE_OFFSETS[hk % len(ANGLE_OFFSETS)] if large_angles else 0
    if op in UNARY_PROPS:
        return getattr(A, op)
    if op == "abs":
        return abs(A)
    if op == "np_sqrt":
        import numpy as _np
        return _np.sqrt(A)
    if op == "np_cbrt":
        import numpy as _np
        return _np.cbrt(A)
    if op == "np_power":
        import numpy as _np
        return _np.power(A, number(rat(p[0])))
    if op == "square":
        return A ** 2
    if op == "neg":
        return -A
    if op == "unit":
        return A.unit()
    if op == "to_beta3":
        return A.to_beta3()
    if op == "scale":
        f = number(rat(p[0]))
        if hk % 4 == 3 and inplace_ok:
            A *= f               # in place: A was built for this call; the result stays in A's own system
            return A
        return (A.scale(f), A * f, f * A)[hk % 3]
    if op == "divide":
        if hk % 2 and inplace_ok:
            A /= number(rat(p[0]))
            return A
        return A / number(rat(p[0]))
    if op in ("scale2D", "scale3D"):
        return getattr(A, op)(number(rat(p[0])))
    if op in ("neg2D", "neg3D"):
        return getattr(A, op)
    if op in ("transform2D_partial", "transform3D_partial"):
        return getattr(A, op[:11])(matrix_of(p[0], number))
    if op in ("rotateZ", "rotateX", "rotateY"):
        return getattr(A, op)(number(angle_of(p[0], k)))
    if op == "rotate_euler":
        order = "".join(p[3])
        if hk % 2:
            order = order.upper()
        return A.rotate_euler(number(angle_of(p[0], k)), number(angle_of(p[1], 0)),
                              number(angle_of(p[2], -k)), order=order)
    if op == "rotate_nautical":
        return A.rotate_nautical(number(angle_of(p[0], 0)), number(angle_of(p[1], k)),
                                 number(angle_of(p[2], 0)))
    if op == "rotate_quaternion":
        q = [number(rat(c)) for c in p[0]]
        return A.rotate_quaternion(*q)
    if op == "rotate_axis":
        return A.rotate_axis(B, number(angle_of(p[0], k)))
    if op in ("transform2D", "transform3D", "transform4D"):
        return getattr(A, op)(matrix_of(p[0], number))
    if op.startswith("boost") and op.endswith("_beta"):
        return getattr(A, op[:6])(beta=number(rat(p[0])))
    if op.startswith("boost") and op.endswith("_gamma"):
        return getattr(A, op[:6])(gamma=number(rat(p[0])))
    if op == "add" and hk % 3 == 0:
        return A + B
    if op == "subtract" and hk % 3 == 0:
        return A - B
    if op in ("add", "subtract") and hk % 3 == 1 and inplace_ok and len(coords.sig_of(A)) == len(coords.sig_of(B)):
        # in place (same dimension required): the sum lands in A's own coordinate system
        if op == "add":
            A += B
        else:
            A -= B
        return A
    if op == "dot" and hk % 3 == 0:
        return A @ B
    if op in BINARY:
        return getattr(A, op)(B)
    if op in ("is_parallel", "is_antiparallel", "is_perpendicular"):
        return getattr(A, op)(B, number(rat(p[0])))
    if op in ("is_timelike", "is_spacelike", "is_lightlike"):
        return getattr(A, op)(number(rat(p[0])))
    raise KeyError(op)


UNARY_PROPS = {"x", "y", "rho", "rho2", "phi", "z", "theta", "eta", "costheta", "cottheta", "mag",
               "mag2", "t", "t2", "tau", "tau2", "beta", "gamma", "rapidity", "Et", "Et2", "Mt", "Mt2"}
MOMENTUM_ONLY = {"Et", "Et2", "Mt", "Mt2"}
BINARY = {"equal", "not_equal", "isclose", "add", "subtract", "cross", "dot", "deltaphi", "deltaangle", "deltaeta", "deltaR", "deltaR2",
          "deltaRapidityPhi", "deltaRapidityPhi2", "boost_p4", "boost_beta3", "boostCM_of_p4",
          "boostCM_of_beta3", "boost", "boostCM_of"}
ANGLE_VALUED = {"phi", "deltaphi"}
NAN_AT_BRANCH = {"Mt", "np_sqrt", "np_cbrt", "np_power"}
# operations whose value on the 2-D/3-D part does not involve the stored higher
# coordinates: running them in every longitudinal/temporal storage is redundant, so the
# quick tier samples signatures for them
PLANAR_OPS = {"x", "y", "rho", "rho2", "phi", "deltaphi", "rotateZ"}

# compute module exercised by a public op on operands of the given dimensions
def variant_key(op, sa, sb, order=None):
    return (op, sa, sb, order)


# --------------------------------------------------------------------------- comparison
def _finite(x):
    return not (mpmath.isnan(x) or mpmath.isinf(x))


def close_num(r, e, tol, angle=False):
    if mpmath.isnan(r) or mpmath.isnan(e):
        return False
    if mpmath.isinf(r) or mpmath.isinf(e):
        return r == e
    d = abs(r - e)
    if angle:
        d = abs(d - 2 * PI * mpmath.nint(d / (2 * PI)))
    return d <= tol


def maxabs(xs):
    m = mpf(0)
    for x in xs:
        if _finite(x):
            m = max(m, abs(x))
    return m


def param_scale(case):
    op, p = case["op"], case["p"]
    s = mpf(1)
    if op in ("scale", "scale2D", "scale3D"):
        s = 1 + abs(rat(p[0]))
    elif op == "divide":
        s = 1 + 1 / abs(rat(p[0]))
    elif op.startswith("transform"):
        s = 1 + max(abs(rat(c)) for row in p[0] for c in row) * len(p[0])
    elif op.endswith("_beta"):
        b = rat(p[0])
        s = 2 / mpmath.sqrt(1 - b * b)
    elif op.endswith("_gamma"):
        s = 2 * abs(rat(p[0]))
    return s


def boost_scale(case, vb):
    op = case["op"]
    if op in ("boost_p4", "boostCM_of_p4") or (op in ("boost", "boostCM_of") and len(vb) == 4):
        m2 = vb[3] ** 2 - vb[0] ** 2 - vb[1] ** 2 - vb[2] ** 2
        if m2 > 0:
            return 2 * abs(vb[3]) / mpmath.sqrt(m2)
    if op in ("boost_beta3", "boostCM_of_beta3") or (op in ("boost", "boostCM_of") and len(vb) == 3):
        b2 = vb[0] ** 2 + vb[1] ** 2 + vb[2] ** 2
        if b2 < 1:
            return 2 / mpmath.sqrt(1 - b2)
    return mpf(1)


def expected_of(case):
    """(kind, value, tie) from the specification's `exp`."""
    e = case["exp"]
    if e[0] == "undef":
        return "undef", None, False
    if e[0] == "num":
        ties = []
        v = terms.ev(e[1], ties)
        return "num", v, bool(ties)
    if e[0] == "vec":
        return "vec", [terms.ev(c) for c in e[1]], False
    if e[0] == "bool":
        if e[1] in ("tieT", "tieF"):
            return "bool", "either", True      # the documented boundary answer: binding only where the arithmetic is exact (run_case)
        return "bool", e[1], e[1] == "either"
    if e[0] == "partial":
        return "partial", (e[1], [terms.ev(c) for c in e[2]]), False
    raise ValueError(e)


def _dyadic(t):
    d = t[2]
    return d & (d - 1) == 0 and abs(t[1]) < 2 ** 20 and d <= 2 ** 10


def exact_tie(case):
    """Operands and tolerance are dyadic rationals small enough for float64 (and 60-digit) arithmetic on them to be exact."""
    return all(_dyadic(t) for t in case["a"]) and all(_dyadic(t) for t in case["p"] if isinstance(t, list) and len(t) == 3 and t[0] == "q")


def result_kind(op):
    if op in UNARY_PROPS or op in ("abs", "square", "np_sqrt", "np_cbrt", "np_power", "dot", "deltaphi", "deltaangle", "deltaeta", "deltaR",
                                   "deltaR2", "deltaRapidityPhi", "deltaRapidityPhi2"):
        return "num"
    if op.startswith("is_") or op in ("equal", "not_equal", "isclose"):
        return "bool"
    return "vec"


def range_violation(op, val, va, sa, mode):
    """Documented ranges and sign conventions (C13), checked on every accessor result."""
    slack = mpf(10) ** -50 if mode == "mp" else mpf(0)
    pi = PI if mode == "mp" else mpf(math.pi)
    if mpmath.isnan(val):
        # NaN is acceptable only where the value is mathematically undefined; the callers
        # compare against the specification for that.  t derived from tau must never be NaN.
        if op in ("t", "t2") and len(sa) == 3 and sa[2] == "tau":
            return "t derived from tau must not be NaN"
        return None
    if op in ("phi", "deltaphi") and not (-pi - slack <= val <= pi + slack):
        return "in [-pi, pi]"
    if op in ("theta", "deltaangle") and not (-slack <= val <= pi + slack):
        return "in [0, pi]"
    if op in ("rho", "mag", "rho2", "mag2", "t2") and val < 0:
        return ">= 0"
    if op in ("costheta", "cottheta") and len(va) >= 3 and va[2] != 0:
        if (val > 0) != (va[2] > 0) or val == 0:
            return "sign of z"
    if op == "t" and len(sa) == 3 and sa[2] == "tau" and val < 0:
        return "t derived from tau is non-negative"
    if len(va) == 4:
        m2 = va[3] ** 2 - va[0] ** 2 - va[1] ** 2 - va[2] ** 2
        if op == "tau" and len(sa) == 3 and sa[2] == "t" and m2 != 0 and (val < 0) != (m2 < 0):
            return "tau derived from t is negative exactly for spacelike vectors"
        if va[3] > 0 and m2 > 0:
            if op == "beta" and not (0 <= val < 1):
                return "beta in [0, 1) for forward timelike vectors"
            if op == "gamma" and not (val >= 1):
                return "gamma >= 1 for forward timelike vectors"
    return None


def result_representable(cart, sig):
    """Is the exact result representable in the system the code returned it in?"""
    if any(not _finite(c) for c in cart):
        return False
    return representable(cart, sig, eps=mpf(10) ** -30)


def _collinear(case):
    if case["op"] not in ("deltaangle", "is_parallel", "is_antiparallel", "is_perpendicular") or not case["b"] or len(case["a"]) != 3:
        return False
    a, b = vec_of(case["a"]), vec_of(case["b"])
    cr = (a[1] * b[2] - a[2] * b[1], a[2] * b[0] - a[0] * b[2], a[0] * b[1] - a[1] * b[0])
    return all(c == 0 for c in cr) and any(x != 0 for x in a) and any(x != 0 for x in b)


def sig_plan(case, tier, mode):
    """Signature combinations to run for a case."""
    na = len(case["a"])
    nb = len(case["b"]) if case["b"] else 0
    sas = signatures(na)
    sbs = signatures(nb) if nb else [None]
    combos = list(itertools.product(sas, sbs))
    op = case["op"]
    limit = None
    if tier == "quick":
        if op in ("is_parallel", "is_antiparallel", "is_perpendicular"):
            limit = 3
        elif op == "rotate_axis":
            limit = 6
        elif op in PLANAR_OPS and na > 2:
            limit = 4
        elif len(combos) > 36:
            limit = 24
    if mode == "f64":
        limit = min(limit or 10, 10) if tier == "quick" else min(limit or 36, 36)
    if _collinear(case):
        limit = None      # every kernel has its own rounding in front of the clamp / comparison: all pairings, both precisions
    if limit is not None and len(combos) > limit:
        canon = (CANON[na], CANON[nb] if nb else None)
        h = _h(case, "sig")
        rest = [c for c in combos if c != canon]
        # deterministic rotation so that over the cases of an op all combos are visited
        start = h % len(rest)
        rest = rest[start:] + rest[:start]
        step = max(1, len(rest) // (limit - 1))
        combos = [canon] + rest[::step][: limit - 1]
    return combos


def run_rawtau(case, classes, number, tier, mode, tol):
    """Cases whose operand is given by its *stored* proper time (a = x, y, z, tau with any tau): the spatial part
    is stored in each of the six spatial systems, tau is stored as given."""
    from vector.backends import object as vobj

    op = case["op"][len("rawtau_"):]
    a = vec_of(case["a"])
    kind, exp, tie = expected_of(case)
    records, hits, compared = [], [], 0
    scale = (1 + maxabs(a)) ** 2
    flavor = "momentum" if _h(case, "fl") % 3 == 0 else "generic"
    for sig3 in signatures(3):
        if not representable(a[:3], sig3):
            continue
        sa = tuple(sig3) + ("tau",)
        st = [number(c) for c in coords.store(a[:3], sig3)] + [number(a[3])]
        az = vobj.AzimuthalObjectXY(st[0], st[1]) if sa[0] == "xy" else vobj.AzimuthalObjectRhoPhi(st[0], st[1])
        lon = {"z": vobj.LongitudinalObjectZ, "theta": vobj.LongitudinalObjectTheta, "eta": vobj.LongitudinalObjectEta}[sa[1]](st[2])
        A = classes[(flavor, 4)](azimuthal=az, longitudinal=lon, temporal=vobj.TemporalObjectTau(st[3]))
        try:
            if op.startswith("is_"):
                raw = getattr(A, op)(number(rat(case["p"][0])))
            else:
                raw = getattr(A, op)
        except Exception as ex:
            records.append({"kind": "error", "sig": [sa, None], "error": f"{type(ex).__name__}: {ex}"[:300]})
            continue
        hits.append((case["op"], sa, None))
        blame = "C02" if sig3 == CANON[3] else "C01"
        if op.startswith("is_"):
            if exp != "either":
                compared += 1
                if bool(raw) != (exp == "T"):
                    records.append({"kind": blame, "sig": [sa, None], "got": bool(raw), "want": exp == "T"})
            continue      # boundaries through tau storage involve a square root: decided by rounding
        val = to_mpf(raw)
        if mpmath.isnan(val) or (op in ("t", "t2") and val < 0):
            records.append({"kind": "range", "sig": [sa, None], "got": mpmath.nstr(val, 30),
                            "want": "t derived from tau is non-negative and never NaN"})
            continue
        compared += 1
        e = tol * scale
        if op == "t" and _finite(exp) and abs(exp) <= mpf(10) ** -15:
            e = (SING_MP if tol == MP_TOL else SING_F64) * scale     # sqrt of a rounding-sized radicand at tau = -mag
        if op == "tau":
            if val != a[3] and not (mode == "f64" and float(val) == float(a[3])):
                records.append({"kind": blame, "sig": [sa, None], "got": mpmath.nstr(val, 30), "want": mpmath.nstr(a[3], 30),
                                "note": "the stored coordinate is returned as stored"})
        elif not close_num(val, exp, e):
            records.append({"kind": blame, "sig": [sa, None], "got": mpmath.nstr(val, 30), "want": mpmath.nstr(exp, 30)})
    return records, hits, compared


def run_case(case, classes, number, tier, mode, tol):
    """Replay one case in every planned signature.  Returns (records, hits) where each
    record describes a disagreement: dict(kind='C01'|'C02'|'range'|'error', ...)."""
    op = case["op"]
    if op.startswith("rawtau_"):
        return run_rawtau(case, classes, number, tier, mode, tol)
    va = vec_of(case["a"])
    vb = vec_of(case["b"]) if case["b"] else None
    kind, exp, tie = expected_of(case)
    rk = result_kind(op)
    flavor = "momentum" if (op in MOMENTUM_ONLY or _h(case, "fl") % 3 == 0) else "generic"
    scale = (1 + maxabs(va)) * (1 + (maxabs(vb) if vb else 0)) * param_scale(case)
    if vb is not None:
        scale *= boost_scale(case, vb)
    if rk == "num" and op in ("dot", "rho2", "mag2", "t2", "tau2", "Et2", "Mt2", "square", "np_power"):
        scale = scale * scale
    if kind == "vec":
        scale = max(scale, 1 + maxabs(exp))
    elif kind == "partial":
        scale = max(scale, 1 + maxabs(exp[1]))
    elif kind == "num" and _finite(exp):
        scale = max(scale, 1 + abs(exp))
    eps = tol * scale
    records, hits = [], []
    ref = None
    results = []
    for sa, sb in sig_plan(case, tier, mode):
        if not representable(va, sa) or (vb is not None and not representable(vb, sb)):
            continue
        A = coords.build(classes, flavor, va, sa, number)
        B = coords.build(classes, "generic" if _h(case, "fb") % 2 else "momentum", vb, sb, number) if vb is not None else None
        try:
            raw = call_op(case, A, B, number, inplace_ok=True)      # A and B are built for this one call
        except Exception as ex:  # the API is total on the lattice: an exception is a finding
            records.append({"kind": "error", "sig": [sa, sb], "error": f"{type(ex).__name__}: {ex}"[:300]})
            continue
        hits.append((op, sa, sb))
        if rk == "num":
            try:
                val = to_mpf(raw)
            except Exception as ex:
                records.append({"kind": "error", "sig": [sa, sb], "error": f"non-numeric result {raw!r}"[:200]})
                continue
            results.append((sa, sb, val, None))
            msg = range_violation(op, val, va, sa, mode)
            if msg:
                records.append({"kind": "range", "sig": [sa, sb], "got": mpmath.nstr(val, 30), "want": msg})
        elif rk == "bool":
            results.append((sa, sb, bool(raw), None))
        else:
            rsig, st, cart = project(raw)
            results.append((sa, sb, cart, (rsig, st, coords.stored_of(A))))
            # documented ranges of the stored coordinates of a result (C13): the accessors return them as stored
            slack = mpf(10) ** -50 if mode == "mp" else mpf(10) ** -15
            pi_ = PI if mode == "mp" else mpf(math.pi)
            if rsig[0] == "rhophi":
                if _finite(st[1]) and not (-pi_ - slack <= st[1] <= pi_ + slack):
                    records.append({"kind": "range", "sig": [sa, sb], "rsig": rsig, "got": mpmath.nstr(st[1], 30), "want": "phi of the result in [-pi, pi]"})
                if _finite(st[0]) and st[0] < 0:
                    records.append({"kind": "range", "sig": [sa, sb], "rsig": rsig, "got": mpmath.nstr(st[0], 30), "want": "rho of the result >= 0"})
            if len(rsig) > 1 and rsig[1] == "theta" and _finite(st[2]) and not (-slack <= st[2] <= pi_ + slack):
                records.append({"kind": "range", "sig": [sa, sb], "rsig": rsig, "got": mpmath.nstr(st[2], 30), "want": "theta of the result in [0, pi]"})
    if not results:
        return records, hits, 0
    canon = (CANON[len(va)], CANON[len(vb)] if vb is not None else None)
    compared = 0
    if kind == "undef":
        # the specification leaves the value undefined (0/0 and the like): nothing is claimed
        return records, hits, 0
    sing_eps = (SING_MP if tol == MP_TOL else SING_F64) * scale
    for sa, sb, val, extra in results:
        is_canon = (sa, sb) == canon
        blame = "C02" if is_canon else "C01"
        if rk == "bool":
            if op in ("equal", "not_equal") and case["a"] == case["b"] and sa != sb:
                continue      # exact equality of one vector stored in two systems is decided by rounding
            if exp != "either":
                compared += 1
                want = exp == "T"
                if val != want:
                    records.append({"kind": blame, "sig": [sa, sb], "got": val, "want": want})
            elif case["exp"][1] == "tieF" and is_canon and exact_tie(case):
                # the boundary of is_timelike / is_spacelike (documented as strict inequalities) in all-Cartesian storage
                # with exactly representable operands and tolerance: the arithmetic is exact, so the strict side is
                # binding.  (is_lightlike on its boundary - "tieT" - is not judged: the property does not say whether
                # the boundary belongs to it, and the code's comparison is strict there too.)
                compared += 1
                if val is not False and val != False:
                    records.append({"kind": blame, "sig": [sa, sb], "got": val, "want": False, "tag": "boundary"})
            continue
        if rk == "num":
            compared += 1
            e = eps
            if op in SQRT_LIKE and _finite(exp) and any(abs(exp - s0) <= mpf(10) ** -15 * scale for s0 in SQRT_LIKE[op]):
                e = sing_eps
            if op in ROOT_OF_NORM2 and e == sing_eps and not is_canon:
                e = sing_eps = (mpf(10) ** -9 if tol == MP_TOL else mpf(10) ** -2) * scale
            if op == "np_cbrt" and tol == MP_TOL:
                e = max(e, mpf(10) ** -14 * scale)     # the library's exponent is the double literal 0.16666666666666666
            if op in NAN_AT_BRANCH and e == sing_eps and not is_canon and mpmath.isnan(val):
                continue        # sqrt of a rounding-negative radicand exactly at its branch point
            if mpmath.isinf(exp) and not is_canon and _finite(val) and abs(val) > (mpf(10) ** 18 if tol == MP_TOL else mpf(10) ** 5) * scale:
                continue        # a pole reached through rounded (non-Cartesian) storage
            if not close_num(val, exp, e, angle=(op in ANGLE_VALUED or tie)):
                records.append({"kind": blame, "sig": [sa, sb],
                                "got": mpmath.nstr(val, 30), "want": mpmath.nstr(exp, 30)})
            continue
        # vector result
        rsig, st, ast = extra
        if kind == "partial":
            # the stored-record contract of scaleN / negN / transformN on higher-dimensional vectors
            npart, pexp = exp
            compared += 1
            if len(rsig) != len(sa):
                records.append({"kind": blame, "sig": [sa, sb], "got": f"dimension {len(rsig) + 1}", "want": f"dimension {len(sa) + 1}"})
                continue
            # bit-for-bit: the stored higher coordinates of the result are those of the operand
            higher_ok = all(rsig[g] == sa[g] and st[g + 1] == ast[g + 1] for g in range(npart - 1, len(sa)))
            if not higher_ok:
                records.append({"kind": blame, "sig": [sa, sb], "rsig": rsig, "got": [mpmath.nstr(c, 25) for c in st],
                                "want": "stored higher coordinates " + str([mpmath.nstr(c, 25) for c in ast[npart:]]) + " untouched", "tag": "partial-higher"})
                continue
            # first N Cartesian components: for N = 3 the z of the result is read in the result's own system
            if npart == 3 and not result_representable(list(pexp) + [val[3]] if len(val) > 3 else list(pexp), rsig):
                continue
            bad = [i for i in range(npart) if not close_num(val[i], pexp[i], eps)]
            if bad:
                records.append({"kind": blame, "sig": [sa, sb], "rsig": rsig, "bad": bad, "got": [mpmath.nstr(c, 25) for c in val],
                                "want": [mpmath.nstr(c, 25) for c in pexp], "tag": "partial-lower"})
            continue
        if len(val) != len(exp):
            records.append({"kind": "C02", "sig": [sa, sb], "got": f"dimension {len(val)}", "want": f"dimension {len(exp)}"})
            continue
        if not result_representable(exp, rsig):
            continue
        compared += 1
        bad = [i for i in range(min(3, len(exp))) if not close_num(val[i], exp[i], eps)]
        if len(exp) == 4:
            if rsig[2] == "tau":
                m2 = exp[3] ** 2 - exp[0] ** 2 - exp[1] ** 2 - exp[2] ** 2
                etau = mpmath.sqrt(m2) if m2 >= 0 else -mpmath.sqrt(-m2)
                e = sing_eps if abs(m2) <= mpf(10) ** -15 * scale * scale else eps
                if not close_num(st[3], etau, e):
                    bad.append(3)
            elif not close_num(val[3], exp[3], eps):
                bad.append(3)
        if bad:
            records.append({"kind": blame, "sig": [sa, sb], "rsig": rsig, "bad": bad,
                            "got": [mpmath.nstr(c, 25) for c in val], "stored": [mpmath.nstr(c, 25) for c in st],
                            "want": [mpmath.nstr(c, 25) for c in exp]})
    # the all-Cartesian storage is one of the storages: if it disagrees with the specification while another
    # storage agrees, the value depends on the storage (C01) as well as being wrong (C02)
    others_ok = compared - len([r for r in records if r.get("kind") in ("C01", "C02")]) > 0
    if others_ok:
        for r in list(records):
            if r.get("kind") == "C02" and "sig" in r:
                r2 = dict(r)
                r2["kind"] = "C01"
                r2["note"] = "all-Cartesian storage differs from storages that agree with the specification"
                records.append(r2)
    return records, hits, compared


# --------------------------------------------------------------------------- driver
def strata(case):
    """Coarse stratum tags of the operands (for keying known findings)."""
    tags = []
    if case["op"].startswith("rawtau_"):
        return ["a:rawtau"]
    for nm, v in (("a", case["a"]), ("b", case["b"])):
        if not v:
            continue
        c = vec_of(v)
        if len(c) == 4:
            if c[3] < 0:
                tags.append(nm + ":t<0")
            m2 = c[3] ** 2 - c[0] ** 2 - c[1] ** 2 - c[2] ** 2
            tags.append(nm + (":timelike" if m2 > 0 else ":lightlike" if m2 == 0 else ":spacelike"))
        if len(c) >= 3 and c[0] == 0 and c[1] == 0:
            tags.append(nm + ":on-axis")
        if all(x == 0 for x in c):
            tags.append(nm + ":zero")
    return tags


def worker(args):
    chunk, tier, mode = args
    from . import mplib

    if mode == "mp":
        classes = mplib.mp_classes()
        number = mplib.M
        tol = MP_TOL
    else:
        import numpy as _np

        classes = coords.f64_classes()
        number = lambda v: _np.float64(float(v))  # IEEE semantics (Python floats raise on x/0.0)
        tol = F64_TOL
    out = {"cases": 0, "calls": 0, "compared": 0, "records": [], "hits": {}, "nontrivial": 0}
    import numpy
    from . import dispatchcov

    dispatchcov.install()
    before = dispatchcov.snapshot()

    for case in chunk:
        with numpy.errstate(all="ignore"):
            try:
                recs, hits, compared = run_case(case, classes, number, tier, mode, tol)
            except Exception as ex:
                from . import common as _c
                recs, hits, compared = [dict(_c.crash_record(case["op"], ex), kind="error", sig=[None, None])], [], 0
        out["cases"] += 1
        out["calls"] += len(hits)
        out["compared"] += compared
        if compared and case["exp"][0] != "undef":
            out["nontrivial"] += 1
        for h in hits:
            k = json.dumps(h)
            out["hits"][k] = out["hits"].get(k, 0) + 1
        for r in recs:
            r["case"] = case
            r["mode"] = mode
            r["strata"] = strata(case)
            out["records"].append(r)
    after = dispatchcov.snapshot()
    out["dispatch"] = {k: after[k] - before.get(k, 0) for k in after}
    return out


def replay(cases, tier="quick", mode="mp", procs=16):
    import multiprocessing as mp

    n = max(1, min(procs, len(cases)))
    chunks = [cases[i::n * 4] for i in range(n * 4)]
    chunks = [c for c in chunks if c]
    ctx = mp.get_context("fork")
    total = {"cases": 0, "calls": 0, "compared": 0, "records": [], "hits": {}, "nontrivial": 0, "dispatch": {}}
    with ctx.Pool(n) as pool:
        for out in pool.imap_unordered(worker, [(c, tier, mode) for c in chunks]):
            for k in ("cases", "calls", "compared", "nontrivial"):
                total[k] += out[k]
            for k, v in out.get("dispatch", {}).items():
                total["dispatch"][k] = total["dispatch"].get(k, 0) + v
            total["records"] += out["records"]
            for k, v in out["hits"].items():
                total["hits"][k] = total["hits"].get(k, 0) + v
    return total


# --------------------------------------------------------------------------- code -> spec traces
def record_trace(cases, seed=0, per_case=1):
    """Run each case once on the 60-digit object backend in a seeded random signature and log the
    call with its result snapped to exact rationals (or 'inexact')."""
    import random

    import numpy

    from . import mplib
    from .objsm import snap

    rng = random.Random(seed)
    classes, number = mplib.mp_classes(), mplib.M
    events = []
    for case in cases:
        op = case["op"]
        if case["exp"][0] in ("undef", "partial"):
            continue
        va = vec_of(case["a"])
        vb = vec_of(case["b"]) if case["b"] else None
        sas = [s for s in signatures(len(va)) if representable(va, s)]
        sbs = [s for s in signatures(len(vb)) if representable(vb, s)] if vb is not None else [None]
        for _ in range(per_case):
            sa, sb = rng.choice(sas), rng.choice(sbs)
            flavor = "momentum" if (op in MOMENTUM_ONLY or rng.random() < 0.5) else "generic"
            A = coords.build(classes, flavor, va, sa, number)
            B = coords.build(classes, rng.choice(["generic", "momentum"]), vb, sb, number) if vb is not None else None
            try:
                with numpy.errstate(all="ignore"):
                    raw = call_op(case, A, B, number)
            except Exception as ex:
                continue
            rk = result_kind(op)
            got = ["inexact"]
            if rk == "bool":
                rounding_decided = op in ("equal", "not_equal") and case["a"] == case["b"] and sa != sb
                if case["exp"][1] not in ("either", "tieT", "tieF") and not rounding_decided:
                    got = ["bool", "T" if bool(raw) else "F"]
            elif rk == "num":
                s = snap(to_mpf(raw))
                if s is not None:
                    got = ["num", s]
            else:
                rsig, st, cart = project(raw)
                exp = expected_of(case)[1]
                if isinstance(exp, list) and result_representable(exp, rsig):
                    ss = [snap(c) for c in cart]
                    if all(x is not None for x in ss):
                        got = ["vec", ss]
            events.append({"op": op, "a": case["a"], "b": case["b"], "p": case["p"], "sa": list(sa), "sb": list(sb) if sb else [], "got": got})
    return events


def validate_trace(events):
    import shutil

    from . import tlc

    d = tlc.scratch_dir("atrace")
    try:
        path = os.path.join(d, "trace.ndjson")
        with open(path, "w") as f:
            for e in events:
                f.write(json.dumps(e) + "\n")
        cfg = "SPECIFICATION TraceSpec\nINVARIANT AllConsumed\nCHECK_DEADLOCK FALSE\n"
        r = tlc.run_tlc("AlgebraTrace", cfg, workers=1, env={"TRACE_FILE": path}, xmx="6g")
        verdicts = tlc.parse_cases(r["lines"], "@@VERDICT ")
        summary = tlc.parse_cases(r["lines"], "@@SUMMARY ")
        if not summary:
            raise tlc.TLCError("AlgebraTrace did not reach the end of the trace:\n" + "\n".join(r["lines"][-30:]))
        return verdicts, summary[0], {"generated": r["generated"], "distinct": r["distinct"]}
    finally:
        shutil.rmtree(d, ignore_errors=True)
