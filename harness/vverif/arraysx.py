"""Execution of the array cases of Arrays.tla: reductions (C17), NumPy indexing (C19),
Awkward layouts (C18)."""
from __future__ import annotations

import copy
import json
import pickle
import warnings

import mpmath
import numpy

from . import coords
from .algebra import rat, close_num, F64_TOL

mpf = mpmath.mpf
MOM = coords.MOM_NAMES
NULLLIST = [-1]


def elem_cart(elems, e, n):
    return [rat(c) for c in elems[e - 1][:n]]


def stored_row(elems, e, sig):
    n = len(sig) + 1
    return [float(c) for c in coords.store(elem_cart(elems, e, n), sig)]


def names_of(sig, flavor):
    names = coords.field_names(sig)
    return [MOM[n] for n in names] if flavor == "momentum" else names


def representable_all(elems, ids, sig):
    n = len(sig) + 1
    return all(coords.representable(elem_cart(elems, e, n), sig) for e in ids)


def flat_ids(x):
    out = []
    if isinstance(x, list):
        if x == NULLLIST:
            return out
        for y in x:
            out += flat_ids(y)
    elif x not in (0, None):
        out.append(x)
    return out


def cart_of_stored(vals, sig):
    return coords.denote([mpf(v) for v in vals], sig)


def vec_cart(v):
    """Cartesian mpf list of a single vector (object or record)."""
    sig = coords.sig_of(v)
    els = list(v.azimuthal.elements)
    if len(sig) > 1:
        els += list(v.longitudinal.elements)
    if len(sig) > 2:
        els += list(v.temporal.elements)
    return cart_of_stored([float(e) for e in els], sig)


def arr_carts(v):
    """Flat list of Cartesian vectors of a NumPy vector array."""
    sig = coords.sig_of(v)
    cols = list(v.azimuthal.elements)
    if len(sig) > 1:
        cols += list(v.longitudinal.elements)
    if len(sig) > 2:
        cols += list(v.temporal.elements)
    cols = [numpy.asarray(c).ravel() for c in cols]
    return [cart_of_stored([float(c[i]) for c in cols], sig) for i in range(len(cols[0]))]


def close_vec(a, b, eps):
    return len(a) == len(b) and all(close_num(x, y, eps) for x, y in zip(a, b))


# ------------------------------------------------------------------ reductions (C17)
def list_depth(x):
    """Nesting depth of a layout: 1 for a flat list of elements."""
    d, y = 1, x
    while isinstance(y, list) and y and isinstance(y[0], list) and y[0] != NULLLIST or (
            isinstance(y, list) and y and any(isinstance(z, list) and z != NULLLIST for z in y)):
        y = next(z for z in y if isinstance(z, list) and z != NULLLIST)
        d += 1
    return d


def ak_build(arr, elems, sig, flavor, depth=None, raw_spelling=None):
    import awkward as ak
    import vector

    names = names_of(sig, flavor)

    def conv(x):
        if isinstance(x, list):
            if x == NULLLIST:
                return None
            return [conv(y) for y in x]
        if x == 0:
            return None
        return dict(zip(names, stored_row(elems, x, sig)))

    data = conv(arr)
    probe = dict(zip(names, stored_row(elems, 1, sig)))
    for _ in range((depth or list_depth(arr)) - 1):
        probe = [probe]
    # the probe element fixes the type of empty / all-missing lists; it is sliced off again
    built = ak.Array(data + [probe])[: len(data)]
    if raw_spelling is not None:
        # records named by ak.with_name, fields kept under the user's own spelling (vector.Array would rename them)
        alt = {"E": ["E", "e", "energy"][raw_spelling % 3], "mass": ["mass", "M", "m"][raw_spelling % 3]}
        for old_, new_ in alt.items():
            if old_ in names and new_ != old_:
                built = ak.with_field(ak.without_field(built, old_), built[old_], new_)
        recname = ("Momentum" if flavor == "momentum" else "Vector") + f"{len(sig) + 1}D"
        return ak.Array(ak.with_name(built, recname), behavior=vector.backends.awkward.behavior)
    return vector.Array(built)


RAW_REDUCE = [0]


def run_reduce(case, elems, sigs, recs):
    import awkward as ak
    import vector

    calls = 0
    n = case["dim"]
    ids = flat_ids(case["arr"])
    for sig in sigs:
        if len(sig) + 1 != n or not representable_all(elems, set(ids) | {1}, sig):
            continue
        for flavor in ("generic", "momentum"):
            base = {"op": f"{case['lib']}.{case['op']}", "sig": [sig, None], "tag": "reduce", "flavor": flavor,
                    "axis": case["axis"], "keepdims": case["keepdims"], "case": case}
            axis = None if case["axis"] == "None" else int(case["axis"])
            keep = case["keepdims"] == "T"
            kind, exp = case["exp"]
            scale = 1 + max([abs(x) for e in ids for x in elem_cart(elems, e, n)] + [mpf(1)])
            eps = F64_TOL * scale * (len(ids) + 1)
            try:
                with warnings.catch_warnings(), numpy.errstate(all="ignore"):
                    warnings.simplefilter("ignore")
                    if case["lib"] == "np":
                        names = names_of(sig, flavor)
                        rows = [stored_row(elems, e, sig) for e in ids]
                        # Cartesian storage of the integral pool: also as integer-typed columns (momentum flavor)
                        as_int = flavor == "momentum" and sig == coords.CANON[n]
                        a = vector.array({nm: numpy.array([r[i] for r in rows], dtype=(numpy.int64 if as_int else numpy.float64)).reshape(case["shape"])
                                          for i, nm in enumerate(names)})
                        variants = []
                        if case["op"] == "sum":
                            variants.append(("numpy.sum", numpy.sum(a, axis=axis, keepdims=keep)))
                            variants.append(("method", a.sum(axis=axis, keepdims=keep)))
                        else:
                            variants.append(("numpy.count_nonzero", numpy.count_nonzero(a, axis=axis)))
                    else:
                        a = ak_build(case["arr"], elems, sig, flavor, depth=3 if case["exp"][0] == "nested" else 2)
                        f = {"sum": ak.sum, "count": ak.count, "count_nonzero": ak.count_nonzero}[case["op"]]
                        variants = [("ak", f(a, axis=axis, keepdims=keep) if case["op"] == "sum" else f(a, axis=axis))]
                        if flavor == "momentum" and n == 4:
                            # the same data under the user's own field spellings (e / energy, M / m)
                            RAW_REDUCE[0] += 1
                            a2 = ak_build(case["arr"], elems, sig, flavor, depth=3 if case["exp"][0] == "nested" else 2, raw_spelling=RAW_REDUCE[0])
                            variants.append(("ak-raw-fields", f(a2, axis=axis, keepdims=keep) if case["op"] == "sum" else f(a2, axis=axis)))
            except Exception as ex:
                recs.append(dict(base, kind="exception", error=f"{type(ex).__name__}: {ex}"[:300]))
                continue
            for vname, out in variants:
                calls += 1
                b2 = dict(base, form=vname)
                if kind == "vec":
                    want = [rat(c) for c in exp]
                    if not isinstance(out, vector.Vector):
                        recs.append(dict(b2, kind="not-a-vector", got=type(out).__name__))
                        continue
                    if isinstance(out, vector.Momentum) != (flavor == "momentum"):
                        recs.append(dict(b2, kind="flavor-lost"))
                    got = vec_cart(out) if not isinstance(out, numpy.ndarray) else arr_carts(out)[0]
                    if not close_vec(got, want, eps):
                        recs.append(dict(b2, kind="wrong-sum", got=[mpmath.nstr(x, 15) for x in got], want=[mpmath.nstr(x, 15) for x in want]))
                elif kind == "vecs":
                    want = [[rat(c) for c in v] for v in exp]
                    if not isinstance(out, vector.Vector):
                        recs.append(dict(b2, kind="not-a-vector", got=type(out).__name__))
                        continue
                    if isinstance(out, vector.Momentum) != (flavor == "momentum"):
                        recs.append(dict(b2, kind="flavor-lost"))
                    if case["lib"] == "np":
                        got = arr_carts(out)
                        shp = tuple(out.shape)
                        sh = list(case["shape"])
                        ax = axis if axis is not None and axis >= 0 else (len(sh) + axis if axis is not None else None)
                        wshape = tuple(1 if (k == ax and keep) else s for k, s in enumerate(sh) if (k != ax or keep))
                        if shp != wshape:
                            recs.append(dict(b2, kind="wrong-shape", got=list(shp), want=list(wshape)))
                    else:
                        got = [vec_cart(r) for r in out]
                    if len(got) != len(want) or any(not close_vec(g, w, eps) for g, w in zip(got, want)):
                        recs.append(dict(b2, kind="wrong-sum", got=[[mpmath.nstr(x, 12) for x in g] for g in got][:4],
                                         want=[[mpmath.nstr(x, 12) for x in w] for w in want][:4]))
                elif kind in ("optvecs", "optvecs1"):
                    lst = ak.to_list(out)
                    if len(lst) != len(exp):
                        recs.append(dict(b2, kind="wrong-length", got=len(lst), want=len(exp)))
                        continue
                    if isinstance(out, vector.Momentum) != (flavor == "momentum"):
                        recs.append(dict(b2, kind="flavor-lost"))
                    for k, w in enumerate(exp):
                        g = lst[k]
                        if kind == "optvecs1" and g is not None:
                            if not (isinstance(g, list) and len(g) == 1):
                                recs.append(dict(b2, kind="keepdims-ignored", got=repr(g)[:80]))
                                break
                            g = g[0]
                        if w == ["null"]:
                            if g is not None:
                                recs.append(dict(b2, kind="missing-list-not-missing", got=repr(g)[:80]))
                            continue
                        if g is None:
                            recs.append(dict(b2, kind="sum-is-missing", index=k))
                            continue
                        rsig = coords.sig_of(out)
                        rn = coords.field_names(rsig)
                        gc = cart_of_stored([g[nm] for nm in rn], rsig)
                        if not close_vec(gc, [rat(c) for c in w], eps):
                            recs.append(dict(b2, kind="wrong-sum", index=k, got=[mpmath.nstr(x, 12) for x in gc], want=[mpmath.nstr(rat(c), 12) for c in w]))
                elif kind == "nested":
                    lst = ak.to_list(out)
                    rsig = coords.sig_of(out)
                    rn = coords.field_names(rsig)
                    ok = len(lst) == len(exp) and all(len(a_) == len(b_) for a_, b_ in zip(lst, exp))
                    if not ok:
                        recs.append(dict(b2, kind="wrong-structure", got=repr(lst)[:120]))
                        continue
                    for a_, b_ in zip(lst, exp):
                        for g, w in zip(a_, b_):
                            gc = cart_of_stored([g[nm] for nm in rn], rsig)
                            if not close_vec(gc, [rat(c) for c in w], eps):
                                recs.append(dict(b2, kind="wrong-sum", got=[mpmath.nstr(x, 12) for x in gc]))
                elif kind == "int":
                    if int(out) != exp:
                        recs.append(dict(b2, kind="wrong-count", got=int(out), want=exp))
                elif kind == "ints":
                    got = [int(x) for x in numpy.asarray(out).ravel()]
                    if got != list(exp):
                        recs.append(dict(b2, kind="wrong-count", got=got, want=list(exp)))
                elif kind == "optints":
                    got = ak.to_list(out)
                    want = [None if w == ["null"] else w for w in exp]
                    if got != want:
                        recs.append(dict(b2, kind="wrong-count", got=got, want=want))
    return calls


# ------------------------------------------------------------------ NumPy indexing (C19)
def run_index(case, elems, sigs, recs):
    import vector

    calls = 0
    sh = case["shape"]
    total = int(numpy.prod(sh))
    ids = [(p % 5) + 1 for p in range(total)]
    for sig in sigs:
        for flavor in ("generic", "momentum"):
            n = len(sig) + 1
            names = names_of(sig, flavor)
            gnames = coords.field_names(sig)
            rows0 = [stored_row(elems, e, sig) for e in ids]
            cartesian = all(x in ("xy", "z", "t") for x in sig)
            for dtype in ([numpy.float64, "reversed-fields", numpy.int64, numpy.float32] if cartesian else [numpy.float64, "reversed-fields", numpy.float32]):
              # float32 / int64 columns: the stored values are the dtype's own values;
              # "reversed-fields": a structured dtype that lists the coordinates in another order (fields are found by name)
              order = None
              if dtype == "reversed-fields":
                  dtype, order = numpy.float64, list(reversed(names))
              rows = [[float(numpy.asarray(x, dtype=dtype)) for x in r] for r in rows0]
              if order is None:
                  a = vector.array({nm: numpy.array([r[i] for r in rows], dtype=dtype).reshape(sh) for i, nm in enumerate(names)})
              else:
                  a = vector.array([tuple(r[names.index(nm)] for nm in order) for r in rows], dtype=[(nm, numpy.float64) for nm in order]).reshape(sh)
              base = {"op": "index:" + case["kind"], "sig": [sig, None], "tag": "index", "flavor": flavor, "case": case,
                      "dtype": numpy.dtype(dtype).name + ("-reversed-fields" if order else "")}
              kind, arg = case["kind"], case["arg"]
              calls += 1
              try:
                  if kind == "int":
                      out = a[tuple(arg)] if len(arg) > 1 else a[arg[0]]
                  elif kind == "row":
                      out = a[arg[0]]
                  elif kind == "slice":
                      out = a[arg[0]: arg[1]]
                  elif kind == "mask":
                      out = a[numpy.array(arg, dtype=bool)]
                  elif kind == "fancy":
                      out = a[numpy.array(arg)]
                  elif kind == "step":
                      out = a[::arg[0]]
                  elif kind == "ravel":
                      out = a.reshape(-1)
                  elif kind == "column":
                      out = a.reshape(-1, 1)
                  elif kind == "view":
                      out = a.view()
                  elif kind == "copy":
                      out = a.copy()
                  elif kind == "deepcopy":
                      out = copy.deepcopy(a)
                  elif kind == "pickle":
                      out = pickle.loads(pickle.dumps(a))
                  elif kind == "asarray":
                      out = numpy.asarray(a)
                  elif kind == "asanyarray":
                      out = numpy.asanyarray(a)
                  elif kind == "field":
                      # every stored column, through the geometric name and through the momentum synonyms
                      for gi, g in enumerate(gnames):
                          spell = [g] + ([MOM[g]] if flavor == "momentum" and MOM[g] != g else [])
                          for nm in spell:
                              col = a[nm]
                              want = numpy.array([r[gi] for r in rows]).reshape(sh)
                              if type(col) is not numpy.ndarray or col.shape != tuple(sh) or not numpy.array_equal(col, want):
                                  recs.append(dict(base, kind="wrong-column", field=nm, got=repr(col)[:100]))
                      continue
              except Exception as ex:
                  recs.append(dict(base, kind="exception", error=f"{type(ex).__name__}: {ex}"[:300]))
                  continue
              pos = case["positions"]
              want_rows = [rows[p] for p in pos]
              if kind == "int":
                  if not isinstance(out, vector.VectorObject):
                      recs.append(dict(base, kind="not-an-object", got=type(out).__name__))
                      continue
                  if isinstance(out, vector.Momentum) != (flavor == "momentum") or vector.dim(out) != n:
                      recs.append(dict(base, kind="wrong-class", got=type(out).__name__))
                  if tuple(coords.sig_of(out)) != tuple(sig):
                      recs.append(dict(base, kind="wrong-system", got=list(coords.sig_of(out))))
                      continue
                  els = list(out.azimuthal.elements) + (list(out.longitudinal.elements) if n > 2 else []) + (list(out.temporal.elements) if n > 3 else [])
                  if [float(e) for e in els] != want_rows[0]:
                      recs.append(dict(base, kind="wrong-element", got=[float(e) for e in els], want=want_rows[0]))
                  # the coordinate arrays index to the coordinate objects of that element
                  idx = tuple(arg) if len(arg) > 1 else arg[0]
                  # (canonical field order only: the coordinate arrays take their elements by position - an observation
                  # outside the property, which speaks of vector arrays; see DESIGN.md 13.3)
                  for gname in ([] if order else ["azimuthal"] + (["longitudinal"] if n > 2 else []) + (["temporal"] if n > 3 else [])):
                      calls += 1
                      try:
                          cobj, want_c = getattr(a, gname)[idx], getattr(out, gname)
                          if type(cobj) is not type(want_c) or [float(e) for e in cobj.elements] != [float(e) for e in want_c.elements]:
                              recs.append(dict(base, kind="coordinate-array-element-differs", group=gname, got=repr(cobj)[:100], want=repr(want_c)[:100]))
                      except Exception as ex:
                          recs.append(dict(base, kind="exception", group=gname, error=f"{type(ex).__name__}: {ex}"[:200]))
                  continue
              if kind == "asarray":
                  if type(out) is not numpy.ndarray:
                      recs.append(dict(base, kind="asarray-not-plain", got=type(out).__name__))
                  if (out.dtype.names != tuple(gnames)) if order is None else (sorted(out.dtype.names or ()) != sorted(gnames)):
                      recs.append(dict(base, kind="wrong-fields", got=list(out.dtype.names or ()), want=gnames))
                      continue
              else:
                  if type(out) is not type(a):
                      recs.append(dict(base, kind="class-changed", got=type(out).__name__, want=type(a).__name__))
                      continue
                  if tuple(coords.sig_of(out)) != tuple(sig) or isinstance(out, vector.Momentum) != (flavor == "momentum"):
                      recs.append(dict(base, kind="system-or-flavor-changed", got=list(coords.sig_of(out))))
                      continue
                  if kind in ("copy", "deepcopy", "pickle", "slice", "row", "mask", "fancy", "step", "ravel", "column", "view", "asanyarray") and out.dtype != a.dtype:
                      recs.append(dict(base, kind="dtype-changed", got=repr(out.dtype)))
              if tuple(out.shape) != tuple(case["rshape"]):
                  recs.append(dict(base, kind="wrong-shape", got=list(out.shape), want=case["rshape"]))
                  continue
              plain = numpy.asarray(out)
              for gi, g in enumerate(gnames):
                  col = plain[g].ravel()
                  if [float(x) for x in col] != [r[gi] for r in want_rows]:
                      recs.append(dict(base, kind="wrong-elements", field=g, got=[float(x) for x in col][:6], want=[r[gi] for r in want_rows][:6]))
                      break
    return calls


def run_object_array_forms(elems, sigs, recs):
    """The array form of a vector object: __array__ / asanyarray give the equivalent vector array of
    the same flavor and system, asarray the plain structured array with the same fields."""
    import vector

    calls = 0
    # second and third pass: the SAME stored numbers in every system, one after the other in this process (the array
    # form of one object must not depend on which objects were converted before it)
    for raw in (None, [1.5, 0.25, 0.5, 2.0], [2, 1, 3, 7]):
      for sig in sigs:
        for flavor in ("generic", "momentum"):
            names = names_of(sig, flavor)
            row = stored_row(elems, 2, sig) if raw is None else [float(x) for x in raw[: len(sig) + 1]]
            o = vector.obj(**dict(zip(names, row if raw is None else raw[: len(sig) + 1])))
            base = {"op": "object-array-form", "sig": [sig, None], "tag": "index", "flavor": flavor, "values": "same-in-every-system" if raw else "pool"}
            for form, f in (("__array__", lambda: o.__array__()), ("asanyarray", lambda: numpy.asanyarray(o)), ("asarray", lambda: numpy.asarray(o))):
                calls += 1
                try:
                    out = f()
                except Exception as ex:
                    recs.append(dict(base, kind="exception", form=form, error=f"{type(ex).__name__}: {ex}"[:200]))
                    continue
                if form == "asarray":
                    if out.dtype.names != tuple(coords.field_names(sig)):
                        recs.append(dict(base, kind="wrong-fields", form=form, got=list(out.dtype.names or ())))
                        continue
                else:
                    if not isinstance(out, vector.VectorNumpy):
                        recs.append(dict(base, kind="not-a-vector-array", form=form, got=type(out).__name__))
                        continue
                    if isinstance(out, vector.Momentum) != (flavor == "momentum"):
                        recs.append(dict(base, kind="flavor-lost", form=form, got=type(out).__name__))
                    if tuple(coords.sig_of(out)) != tuple(sig):
                        recs.append(dict(base, kind="wrong-system", form=form, got=list(coords.sig_of(out))))
                        continue
                plain = numpy.asarray(out)
                vals = [float(numpy.asarray(plain[g]).ravel()[0]) for g in coords.field_names(sig)]
                if vals != row:
                    recs.append(dict(base, kind="wrong-values", form=form, got=vals, want=row))
                if form == "asanyarray" and raw is None:
                    # the array form of an object is zero-dimensional: it copies, pickles and indexes like any other shape
                    for how, g in (("pickle", lambda a: pickle.loads(pickle.dumps(a))), ("copy", lambda a: a.copy()), ("deepcopy", copy.deepcopy),
                                   ("pickle-protocol-2", lambda a: pickle.loads(pickle.dumps(a, protocol=2)))):
                        calls += 1
                        try:
                            back = g(out)
                            if type(back) is not type(out) or back.shape != out.shape or back.dtype != out.dtype or back.tobytes() != out.tobytes():
                                recs.append(dict(base, kind="zero-dimensional-array-does-not-round-trip", form=how,
                                                 got=f"{type(back).__name__} shape {back.shape}", want=f"{type(out).__name__} shape {out.shape}"))
                            el = back[()]
                            if not isinstance(el, vector.VectorObject) or tuple(coords.sig_of(el)) != tuple(sig):
                                recs.append(dict(base, kind="zero-dimensional-array-element", form=how, got=type(el).__name__))
                        except Exception as ex:
                            recs.append(dict(base, kind="exception", form=how, error=f"{type(ex).__name__}: {ex}"[:200]))
    return calls


# ------------------------------------------------------------------ Awkward layouts (C18)
ONE_VECTOR_OPS = {
    "scale": lambda v: v.scale(2.0), "rotateZ": lambda v: v.rotateZ(0.25), "unit": lambda v: v.unit(),
    "neg": lambda v: -v, "to_native_again": lambda v: getattr(v, "to_" + "".join(coords.field_names(coords.sig_of(v))))(),
    "to_rhophi_or_xy": lambda v: v.to_rhophi() if coords.sig_of(v)[0] == "xy" else v.to_xy(),
    # dimension changes: projections drop, embeddings impute a constant next to possibly missing records
    "to_Vector2D": lambda v: v.to_Vector2D(), "to_Vector3D": lambda v: v.to_Vector3D(), "to_Vector4D": lambda v: v.to_Vector4D(),
    "to_rhophieta": lambda v: v.to_rhophieta(), "to_xyzt": lambda v: v.to_xyzt(),
    "to_Vector4D-keywords": lambda v: v.to_Vector4D(**({"z": 1.5} if len(coords.sig_of(v)) < 2 else {}), **({"t": 7.25} if len(coords.sig_of(v)) < 3 else {})),
}
SCALAR_OPS = {"rho": lambda v: v.rho, "phi": lambda v: v.phi, "dot_self": lambda v: v.dot(v)}
TWO_VECTOR_OPS = {"add_self": lambda v, o: v.add(v), "subtract_object": lambda v, o: v.subtract(o), "add_operator": lambda v, o: v + v,
                  "cross_object": lambda v, o: v.cross(o) if len(coords.sig_of(v)) == 2 else v.add(o),
                  "cross_shifted_self": lambda v, o: v.cross(v.add(o)) if len(coords.sig_of(v)) == 2 else v.subtract(v.add(o))}


def is_missing(x):
    """None, or a record all of whose fields are missing (vector.Array turns option[record] into
    record[option fields])."""
    return x is None or (isinstance(x, dict) and all(v is None for v in x.values()))


def structure(x, leaf):
    if is_missing(x):
        return None
    if isinstance(x, list):
        return [structure(y, leaf) for y in x]
    return leaf(x)


def spec_structure(m):
    if m == ["null"]:
        return None
    if isinstance(m, list) and len(m) == 2 and m[0] == "f" and isinstance(m[1], int):
        return m[1]
    return [spec_structure(y) for y in m]


def run_layout(case, elems, sigs, recs):
    import awkward as ak
    import vector

    calls = 0
    lay = case["layout"]
    ids = flat_ids(lay)
    want_struct = spec_structure(case["mapped"])
    for sig in sigs:
        if not representable_all(elems, set(ids) | {1}, sig):
            continue
        n = len(sig) + 1
        for flavor, ctor in (("generic", "Array"), ("momentum", "Array"), ("generic", "with_name"), ("momentum", "with_name")):
            names = names_of(sig, flavor)
            with_hits = ctor == "with_name"

            def conv(x):
                if isinstance(x, list):
                    if x == NULLLIST:
                        return None
                    return [conv(y) for y in x]
                if x == 0:
                    return None
                d = dict(zip(names, stored_row(elems, x, sig)))
                d["charge"] = x
                d["label"] = 100.5 + x
                if with_hits:
                    d["hits"] = list(range(x % 3))       # a list-valued extra field: deeper than the coordinates
                return d

            data = conv(lay)
            sample = dict(zip(names, stored_row(elems, 1, sig)))
            sample.update(charge=1, label=101.5)
            if with_hits:
                sample["hits"] = [7]
            probe = sample
            for _ in range(case["depth"] - 1):
                probe = [probe]
            raw = ak.Array(data + [probe])[: len(data)]
            if case["regular"] == "T":
                raw = ak.to_regular(raw, axis=1)
            if ctor == "Array":
                arr = vector.Array(raw)
            else:
                # records named by ak.with_name and the vector behavior attached by hand (what vector.zip /
                # register_awkward users do): the only way to carry list-valued extra fields
                recname = ("Momentum" if flavor == "momentum" else "Vector") + f"{n}D"
                arr = ak.Array(ak.with_name(raw, recname), behavior=vector.backends.awkward.behavior)
            single = vector.obj(**dict(zip(coords.field_names(coords.CANON[n]), [0.5, -1.5, 2.5, 9.5][:n])))
            base0 = {"sig": [sig, None], "tag": "layout", "flavor": flavor, "ctor": ctor, "case": case}
            in_struct = structure(ak.to_list(arr), lambda d: d["charge"])
            if in_struct != want_struct:
                recs.append(dict(base0, op="construct", kind="constructor-changed-structure", got=repr(in_struct)[:150], want=repr(want_struct)[:150]))
                continue

            def objects_of(x):
                try:
                    return vector.obj(**{nm: float(x[g] if g in x else x[nm]) for nm, g in zip(names, coords.field_names(sig))})
                except Exception as ex:
                    raise RuntimeError(f"cannot rebuild object from {x!r} names={names}") from ex

            def check_vector_result(opname, out, f_obj, carries):
                base = dict(base0, op=opname)
                if not isinstance(out, ak.Array) or not isinstance(out, vector.backends.awkward.VectorAwkward):
                    recs.append(dict(base, kind="result-without-vector-behavior", got=type(out).__name__))
                    return
                lst = ak.to_list(out)
                in_list = ak.to_list(arr)
                rsig = coords.sig_of(out)
                rnames = coords.field_names(rsig)
                # structure and missing positions
                s_out = structure(lst, lambda d: 1)
                s_in = structure(in_list, lambda d: 1)
                if s_out != s_in:
                    recs.append(dict(base, kind="structure-changed", got=repr(s_out)[:150], want=repr(s_in)[:150]))
                    return
                if out.layout.purelist_depth != arr.layout.purelist_depth:
                    recs.append(dict(base, kind="nesting-depth-changed", got=str(ak.type(out))[:150], want=str(ak.type(arr))[:150]))
                fields = set(ak.fields(out))
                extra = fields - set(rnames) - set(MOM[g] for g in rnames)
                if carries and extra != ({"charge", "label", "hits"} if with_hits else {"charge", "label"}):
                    recs.append(dict(base, kind="extra-fields-not-carried", got=sorted(fields)))
                if not carries and extra:
                    recs.append(dict(base, kind="extra-fields-in-binary-result", got=sorted(fields)))
                if isinstance(out, vector.Momentum) != (flavor == "momentum"):
                    recs.append(dict(base, kind="flavor-changed"))

                def walk(a, b):
                    if is_missing(a) or is_missing(b):
                        return
                    if isinstance(a, list):
                        for x, y in zip(a, b):
                            walk(x, y)
                        return
                    ref = f_obj(objects_of(b))
                    rc = vec_cart(ref)
                    gc = cart_of_stored([a[nm] if nm in a else a[MOM[nm]] for nm in rnames], rsig)
                    sc = 1 + max(abs(x) for x in rc)
                    if not close_vec(gc, rc, mpf(10) ** -12 * sc):
                        recs.append(dict(base, kind="element-differs-from-object-backend", got=[mpmath.nstr(x, 17) for x in gc], want=[mpmath.nstr(x, 17) for x in rc]))
                    if carries and (a.get("charge") != b["charge"] or a.get("label") != b["label"] or a.get("hits") != b.get("hits")):
                        recs.append(dict(base, kind="extra-field-value-changed", got=[a.get("charge"), a.get("label"), a.get("hits")],
                                         want=[b["charge"], b["label"], b.get("hits")]))

                walk(lst, in_list)

            with warnings.catch_warnings(), numpy.errstate(all="ignore"):
                warnings.simplefilter("ignore")
                for opname, f in ONE_VECTOR_OPS.items():
                    calls += 1
                    try:
                        out = f(arr)
                    except Exception as ex:
                        recs.append(dict(base0, op=opname, kind="exception", error=f"{type(ex).__name__}: {ex}"[:300]))
                        continue
                    check_vector_result(opname, out, f, True)
                # operations whose second vector is secondary (axis, booster): the result is the first operand's -
                # it carries the first operand's extra fields and none of the second's, whatever backend the second is
                if n >= 3:
                    sec_ops = {"rotate_axis": (3, lambda v, o: v.rotate_axis(o, 0.3))}
                    if n == 4:
                        sec_ops.update({"boost_p4": (4, lambda v, o: v.boost_p4(o)), "boost(4D)": (4, lambda v, o: v.boost(o)),
                                        "boostCM_of_p4": (4, lambda v, o: v.boostCM_of_p4(o)), "boost_beta3": (3, lambda v, o: v.boost_beta3(o)),
                                        "boostCM_of(3D)": (3, lambda v, o: v.boostCM_of(o))})
                    for opname, (sdim, f) in sec_ops.items():
                        vals = {3: [0.1, -0.2, 0.3], 4: [0.1, -0.2, 0.3, 5.0]}[sdim]
                        snames = ["x", "y", "z", "t"][:sdim]
                        sobj = vector.obj(**dict(zip(snames, vals)))
                        zero = arr.rho * 0.0
                        cols = {nm: zero + val for nm, val in zip(snames, vals)}
                        cols["frame_id"] = zero + 7.0
                        sarr = ak.zip(cols, depth_limit=arr.layout.purelist_depth)
                        sarr = ak.Array(ak.with_name(sarr, f"Vector{sdim}D"), behavior=vector.backends.awkward.behavior)
                        for skind, sec in (("awkward-array", sarr), ("object", sobj)):
                            calls += 1
                            try:
                                out = f(arr, sec)
                            except Exception as ex:
                                recs.append(dict(base0, op=opname + ":" + skind, kind="exception", error=f"{type(ex).__name__}: {ex}"[:300]))
                                continue
                            check_vector_result(opname + ":" + skind, out, (lambda o, f=f: f(o, sobj)), True)
                for opname, f in TWO_VECTOR_OPS.items():
                    calls += 1
                    try:
                        out = f(arr, single)
                    except Exception as ex:
                        recs.append(dict(base0, op=opname, kind="exception", error=f"{type(ex).__name__}: {ex}"[:300]))
                        continue
                    check_vector_result(opname, out, (lambda o, f=f: f(o, single)), False)
                for opname, f in SCALAR_OPS.items():
                    calls += 1
                    base = dict(base0, op=opname)
                    try:
                        out = f(arr)
                    except Exception as ex:
                        recs.append(dict(base, kind="exception", error=f"{type(ex).__name__}: {ex}"[:300]))
                        continue
                    lst, in_list = ak.to_list(out), ak.to_list(arr)
                    if structure(lst, lambda d: 1) != structure(in_list, lambda d: 1):
                        recs.append(dict(base, kind="structure-changed", got=repr(structure(lst, lambda d: 1))[:150]))
                        continue

                    def walk2(a, b):
                        if is_missing(a) or is_missing(b):
                            return
                        if isinstance(a, list):
                            for x, y in zip(a, b):
                                walk2(x, y)
                            return
                        ref = float(f(objects_of(b)))
                        if abs(a - ref) > 1e-12 * (1 + abs(ref)):
                            recs.append(dict(base, kind="element-differs-from-object-backend", got=a, want=ref))

                    walk2(lst, in_list)
                # a record selected from the array behaves like the equivalent object
                flat = ak.flatten(arr, axis=None) if False else None
                recs_list = [r for r in _iter_records(arr)]
                for r in recs_list[:2]:
                    calls += 1
                    base = dict(base0, op="record")
                    if not isinstance(r, vector.backends.awkward.VectorAwkward):
                        recs.append(dict(base, kind="record-without-vector-behavior", got=type(r).__name__))
                        continue
                    rl = ak.to_list(r)
                    o = vector.obj(**{nm: float(rl[g] if g in rl else rl[nm]) for nm, g in zip(names, coords.field_names(sig))})
                    for p in ("rho", "phi") + (("eta", "mag") if n > 2 else ()) + (("tau", "t") if n > 3 else ()):
                        if abs(float(getattr(r, p)) - float(getattr(o, p))) > 1e-12 * (1 + abs(float(getattr(o, p)))):
                            recs.append(dict(base, kind="record-differs-from-object", prop=p))
                    ro, oo = r.scale(3.0), o.scale(3.0)
                    if not isinstance(ro, vector.Vector) or not close_vec(vec_cart(ro), vec_cart(oo), mpf(10) ** -12 * 100):
                        recs.append(dict(base, kind="record-method-differs-from-object", got=repr(ro)[:100]))
                    # class links of the record classes: flavor and dimension of what a record turns into
                    for mname, f in (("to_Vector2D", lambda v: v.to_Vector2D()), ("to_Vector3D", lambda v: v.to_Vector3D()),
                                     ("to_Vector4D", lambda v: v.to_Vector4D()), ("to_xy", lambda v: v.to_xy()), ("unit", lambda v: v.unit()),
                                     ("to_rhophieta", lambda v: v.to_rhophieta()), ("to_xyzt", lambda v: v.to_xyzt()),
                                     ("add-object", lambda v: v.add(single)), ("rotateZ", lambda v: v.rotateZ(0.5)),
                                     ("add-momentum-object", lambda v: v.add(vector.obj(**{("p" + k if k in "xyz" else "E"): 1.0 for k in ["x", "y", "z", "t"][:n]})))):
                        calls += 1
                        try:
                            ro, oo = f(r), f(o)
                        except Exception as ex:
                            recs.append(dict(base, kind="exception", method=mname, error=f"{type(ex).__name__}: {ex}"[:200]))
                            continue
                        if not isinstance(ro, vector.Vector) or isinstance(ro, vector.Momentum) != isinstance(oo, vector.Momentum) or vector.dim(ro) != vector.dim(oo) \
                                or tuple(coords.sig_of(ro)) != tuple(coords.sig_of(oo)):
                            recs.append(dict(base, kind="record-result-class-differs-from-object", method=mname, got=type(ro).__name__, want=type(oo).__name__))
                        elif not close_vec(vec_cart(ro), vec_cart(oo), mpf(10) ** -12 * 100):
                            recs.append(dict(base, kind="record-method-differs-from-object", method=mname, got=repr(ro)[:100]))
    return calls


# ------------------------------------------------------------------ broadcasting of two operands (C03)
BROADCAST_OPS = {
    "add": ("vec", lambda a, b: a.add(b)), "add-operator": ("vec", lambda a, b: a + b), "subtract": ("vec", lambda a, b: a.subtract(b)),
    "dot": ("num", lambda a, b: a.dot(b)), "deltaphi": ("num", lambda a, b: a.deltaphi(b)), "equal": ("bool", lambda a, b: a.equal(b)),
}
BROADCAST_OPS3 = {"deltaR": ("num", lambda a, b: a.deltaR(b)), "cross": ("vec", lambda a, b: a.cross(b)), "deltaangle": ("num", lambda a, b: a.deltaangle(b))}
BROADCAST_SCALAR_OPS = {
    "scale": ("vec", lambda a, f: a.scale(f)), "mul-operator": ("vec", lambda a, f: a * f), "rotateZ": ("vec", lambda a, f: a.rotateZ(f)),
}
BROADCAST_SCALAR_OPS4 = {"boostZ": ("vec", lambda a, f: a.boostZ(beta=f / 4.0))}


def run_broadcast(case, elems, sigs, recs):
    import awkward as ak
    import vector
    from . import c03x

    calls = 0
    lib, sa_shape, sb_shape, ok = case["lib"], case["sa"], case["sb"], case["ok"] == "T"
    npool = len(elems)
    if lib == "np":
        na, nb = int(numpy.prod(sa_shape)), int(numpy.prod(sb_shape))
    elif lib == "ak-jag-flat":
        na, nb = sum(sa_shape), sb_shape[0]
    else:
        na, nb = sum(sa_shape), sum(sb_shape)
    ida = [(q % npool) + 1 for q in range(na)]
    idb = [((3 * q + 1) % npool) + 1 for q in range(nb)]
    factors = [0.25 * ((5 * q) % 7 - 3) for q in range(nb)]
    h = abs(hash(json.dumps(case, sort_keys=True)))
    for k in range(len(sigs)):
        sa = sigs[k]
        dim = len(sa) + 1
        sb = [s for s in sigs if len(s) == len(sa)][(h + k) % len([s for s in sigs if len(s) == len(sa)])]
        if not representable_all(elems, ida, sa) or not representable_all(elems, idb, sb):
            continue
        fa = "momentum" if (h + k) % 2 else "generic"
        fb = "momentum" if (h + k) % 3 == 0 else "generic"

        def build(ids, sig, flavor, shape, kind):
            names = names_of(sig, flavor)
            rows = [stored_row(elems, e, sig) for e in ids]
            if kind == "np":
                return vector.array({nm: numpy.array([r[i] for r in rows], dtype=float).reshape(shape) for i, nm in enumerate(names)})
            recs_ = [dict(zip(names, r)) for r in rows]
            if kind == "ak-flat":
                return vector.Array(ak.Array(recs_)) if recs_ else None
            probe = dict(zip(names, stored_row(elems, 1, sig)))
            arr = ak.unflatten(ak.Array(recs_ + [probe]), list(shape) + [1])[: len(shape)]
            return vector.Array(arr)

        def scalars(shape, kind):
            if kind == "np":
                return numpy.array(factors, dtype=float).reshape(shape)
            if kind == "ak-flat":
                return ak.Array(numpy.array(factors, dtype=float))
            return ak.unflatten(ak.Array(numpy.array(factors + [0.0], dtype=float)), list(shape) + [1])[: len(shape)]

        objs_a = [c03x.obj_of(elem_cart(elems, e, dim), sa, fa) for e in ida]
        objs_b = [c03x.obj_of(elem_cart(elems, e, dim), sb, fb) for e in idb]
        if lib == "np":
            A = build(ida, sa, fa, sa_shape, "np")
            Bs = [("np", build(idb, sb, fb, sb_shape, "np"))]
            Fs = [("np", scalars(sb_shape, "np"))]
        elif lib == "ak-jag-flat":
            A = build(ida, sa, fa, sa_shape, "ak-jag")
            Bs = [("ak-flat", build(idb, sb, fb, sb_shape, "ak-flat")), ("np-flat", build(idb, sb, fb, (nb,), "np"))]
            Fs = [("ak-flat", scalars(sb_shape, "ak-flat")), ("np-flat", scalars((nb,), "np"))]
        else:
            A = build(ida, sa, fa, sa_shape, "ak-jag")
            Bs = [("ak-jag", build(idb, sb, fb, sb_shape, "ak-jag"))]
            Fs = [("ak-jag", scalars(sb_shape, "ak-jag"))]
        ops = dict(BROADCAST_OPS)
        sops = dict(BROADCAST_SCALAR_OPS)
        if dim >= 3:
            ops.update(BROADCAST_OPS3)
        if dim == 4:
            ops.pop("cross", None)
            sops.update(BROADCAST_SCALAR_OPS4)
        jobs = [(name, rk, f, bk, B, objs_b) for name, (rk, f) in ops.items() for bk, B in Bs if B is not None]
        jobs += [(name, rk, f, bk, F, factors) for name, (rk, f) in sops.items() for bk, F in Fs]
        for name, rk, f, bk, B, refs_b in jobs:
            base = {"op": "broadcast:" + name, "sig": [sa, sb], "tag": "broadcast", "lib": lib, "bkind": bk, "shapes": [sa_shape, sb_shape],
                    "flavors": [fa, fb]}
            calls += 1
            try:
                with warnings.catch_warnings(), numpy.errstate(all="ignore"):
                    warnings.simplefilter("ignore")
                    out = f(A, B)
            except Exception as ex:
                if ok:
                    recs.append(dict(base, kind="exception", error=f"{type(ex).__name__}: {ex}"[:300]))
                continue
            if not ok:
                recs.append(dict(base, kind="incompatible-operands-accepted", got=repr(out)[:200]))
                continue
            # structure
            if lib == "np":
                shape = tuple(out.shape) if hasattr(out, "shape") else None
                if shape != tuple(case["rshape"]):
                    recs.append(dict(base, kind="wrong-result-shape", got=shape, want=case["rshape"]))
                    continue
            else:
                counts = [len(x) for x in ak.to_list(out)]
                if counts != list(case["rshape"]):
                    recs.append(dict(base, kind="wrong-list-lengths", got=counts, want=case["rshape"]))
                    continue
            # elements
            if rk == "vec":
                if not isinstance(out, vector.Vector):
                    recs.append(dict(base, kind="not-a-vector", got=type(out).__name__))
                    continue
                rsig = coords.sig_of(out)
                if isinstance(out, ak.Array):
                    flat = [d for lst in ak.to_list(out) for d in lst]
                    got = [(rsig, [float(d[nm]) for nm in coords.field_names(rsig)]) for d in flat]
                else:
                    cols = list(out.azimuthal.elements) + (list(out.longitudinal.elements) if len(rsig) > 1 else []) + (list(out.temporal.elements) if len(rsig) > 2 else [])
                    cols = [numpy.asarray(c_).ravel() for c_ in cols]
                    got = [(rsig, [float(c_[i]) for c_ in cols]) for i in range(len(cols[0]))]
            elif isinstance(out, ak.Array):
                got = [x for lst in ak.to_list(out) for x in lst]
            else:
                got = [x.item() for x in numpy.asarray(out).ravel()]
            if len(got) != len(case["posa"]):
                recs.append(dict(base, kind="wrong-number-of-elements", got=len(got), want=len(case["posa"])))
                continue
            for q, (pa, pb) in enumerate(zip(case["posa"], case["posb"])):
                with warnings.catch_warnings(), numpy.errstate(all="ignore"):
                    warnings.simplefilter("ignore")
                    try:
                        ref = c03x.ref_value(rk, f(objs_a[pa], refs_b[pb] if refs_b is objs_b else numpy.float64(refs_b[pb])))
                    except Exception:
                        continue
                if not c03x.compare(rk, got[q], ref, 1e4):
                    recs.append(dict(base, kind="element-pairs-wrong-operands", index=q, pair=[pa, pb], got=repr(got[q])[:160], want=repr(ref)[:160]))
                    break
    return calls



def _iter_records(arr):
    import awkward as ak

    def rec(a):
        if isinstance(a, ak.Record):
            yield a
            return
        if a is None:
            return
        for x in a:
            if x is None:
                continue
            if isinstance(x, ak.Record):
                if all(v is None for v in ak.to_list(x).values()):
                    continue
                yield x
            elif isinstance(x, ak.Array):
                yield from rec(x)

    yield from rec(arr)


def worker(args):
    part, chunk, sigs_mode = args
    out = {"records": [], "calls": 0, "cases": 0}
    for item in chunk:
        case, elems = item["case"], item["elems"]
        if part == "reduce":
            sigs = coords.signatures(case["dim"])
            try:
                out["calls"] += run_reduce(case, elems, sigs, out["records"])
            except Exception as ex:
                from . import common as _c
                out["records"].append(_c.crash_record("reduce", ex, case=case))
        elif part == "index":
            sigs = [s for n in (2, 3, 4) for s in coords.signatures(n)]
            if sigs_mode != "all":
                h = hash(json.dumps(case, sort_keys=True))
                sigs = [sigs[(h + 7 * k) % len(sigs)] for k in range(6)]
            try:
                out["calls"] += run_index(case, elems, sigs, out["records"])
            except Exception as ex:
                from . import common as _c
                out["records"].append(_c.crash_record("index", ex, case=case))
        elif part == "broadcast":
            sigs = [s for n in (2, 3, 4) for s in coords.signatures(n)]
            if sigs_mode != "all":
                h = hash(json.dumps(case, sort_keys=True))
                sigs = [sigs[(h + 3 * k) % len(sigs)] for k in range(4)] + [sigs[0]]
            try:
                out["calls"] += run_broadcast(case, elems, sigs, out["records"])
            except Exception as ex:
                from . import common as _c
                out["records"].append(_c.crash_record("broadcast", ex, case=case))
        else:
            sigs = [s for n in (2, 3, 4) for s in coords.signatures(n)]
            if sigs_mode != "all":
                sigs = sigs[:2] + sigs[2::3]      # both planar systems, every third of the others
            try:
                out["calls"] += run_layout(case, elems, sigs, out["records"])
            except Exception as ex:
                from . import common as _c
                out["records"].append(_c.crash_record("layout", ex, case=case))
        out["cases"] += 1
    return out


def replay(part, items, sigs_mode="sample", procs=16):
    import multiprocessing as mp

    n = max(1, min(procs, len(items)))
    chunks = [items[i::n * 2] for i in range(n * 2)]
    chunks = [c for c in chunks if c]
    total = {"records": [], "calls": 0, "cases": 0}
    with mp.get_context("fork").Pool(n) as pool:
        for out in pool.imap_unordered(worker, [(part, c, sigs_mode) for c in chunks]):
            total["records"] += out["records"]
            total["calls"] += out["calls"]
            total["cases"] += out["cases"]
    if part == "index" and items:
        recs = []
        sigs = [s for n_ in (2, 3, 4) for s in coords.signatures(n_)]
        total["calls"] += run_object_array_forms(items[0]["elems"], sigs, recs)
        total["records"] += recs
    return total
