"""C03: element i of an array result equals the object-backend result for element i.

The one-call cases of Cases.tla are grouped by operation; each group becomes NumPy / Awkward
arrays of operands (flat, 2-D, jagged, option-typed), scalar parameters become arrays of the
same layout or stay scalars, single objects and records broadcast against arrays; the result
is compared element by element with the object backend on identical float64 inputs, and its
shape / list structure with the operand's."""
from __future__ import annotations

import hashlib
import itertools
import json
import warnings

import mpmath
import numpy

from . import algebra, coords
from .algebra import rat, angle_of, result_kind

mpf = mpmath.mpf
SKIP_OPS = {"transform2D_partial", "transform3D_partial"}
# operator and ufunc spellings: each backend implements them in its own table (Awkward behaviors keyed by record name,
# NumPy __array_ufunc__, object dunder methods); exponents and factors of these spellings are plain numbers
SCALAR_ONLY = {"np_power", "divide"}
OPFORMS = {"add": ["method", "operator", "ufunc"], "subtract": ["method", "operator", "ufunc"], "dot": ["method", "operator", "ufunc"],
           "scale": ["method", "operator", "roperator", "ufunc"], "neg": ["operator", "ufunc"], "abs": ["operator", "ufunc"],
           "square": ["operator", "ufunc"], "equal": ["method", "operator", "ufunc"], "not_equal": ["method", "operator", "ufunc"],
           "divide": ["operator", "ufunc"]}


def hsh(*parts):
    return int(hashlib.sha256(json.dumps(parts, sort_keys=True, default=str).encode()).hexdigest()[:8], 16)


def group_key(c):
    op, p = c["op"], c["p"]
    fixed = None
    if op in ("rotate_euler", "rotate_nautical", "rotate_quaternion", "transform2D", "transform3D", "transform4D") or op in SCALAR_ONLY:
        fixed = json.dumps(p)
    return json.dumps([op, len(c["a"]), len(c["b"]) if c["b"] else 0, fixed])


def scalar_params(c):
    """Per-element scalar parameters (floats) of a case, in call order."""
    op, p = c["op"], c["p"]
    if op in ("scale", "scale2D", "scale3D"):
        return [float(rat(p[0]))]
    if op in ("rotateZ", "rotateX", "rotateY", "rotate_axis"):
        return [float(angle_of(p[0], 0))]
    if op.endswith("_beta") or op.endswith("_gamma"):
        return [float(rat(p[0]))]
    if op in ("is_parallel", "is_antiparallel", "is_perpendicular", "is_timelike", "is_spacelike", "is_lightlike"):
        return [float(rat(p[0]))]
    return []


def call(op, A, B, params, fixed, form="method"):
    if op in algebra.UNARY_PROPS:
        return getattr(A, op)
    if op in ("unit", "to_beta3"):
        return getattr(A, op)()
    if op == "scale":
        f = params[0]
        return {"method": lambda: A.scale(f), "operator": lambda: A * f, "roperator": lambda: f * A, "ufunc": lambda: numpy.multiply(A, f)}[form]()
    if op in ("scale2D", "scale3D"):
        return getattr(A, op)(params[0])
    if op in ("neg2D", "neg3D"):
        return getattr(A, op)
    if op == "abs":
        return abs(A) if form != "ufunc" else numpy.absolute(A)
    if op == "square":
        return {"operator": lambda: A ** 2, "ufunc": lambda: numpy.square(A), "power2": lambda: numpy.power(A, 2)}.get(form, lambda: A ** 2)()
    if op == "np_sqrt":
        return numpy.sqrt(A)
    if op == "np_cbrt":
        return numpy.cbrt(A)
    if op == "np_power":
        e = float(rat(fixed[0]))
        return numpy.power(A, e) if form != "operator" else A ** e
    if op == "neg":
        return -A if form != "ufunc" else numpy.negative(A)
    if op == "divide":
        d = float(rat(fixed[0]))
        return A / d if form != "ufunc" else numpy.true_divide(A, d)
    if op in ("add", "subtract", "dot", "equal", "not_equal") and form != "method":
        import operator as _o

        fn = {"add": (_o.add, numpy.add), "subtract": (_o.sub, numpy.subtract), "dot": (_o.matmul, numpy.matmul),
              "equal": (_o.eq, numpy.equal), "not_equal": (_o.ne, numpy.not_equal)}[op][0 if form == "operator" else 1]
        return fn(A, B)
    if op in ("rotateZ", "rotateX", "rotateY"):
        return getattr(A, op)(params[0])
    if op == "rotate_axis":
        return A.rotate_axis(B, params[0])
    if op == "rotate_euler":
        return A.rotate_euler(float(angle_of(fixed[0], 0)), float(angle_of(fixed[1], 0)), float(angle_of(fixed[2], 0)), order="".join(fixed[3]))
    if op == "rotate_nautical":
        return A.rotate_nautical(float(angle_of(fixed[0], 0)), float(angle_of(fixed[1], 0)), float(angle_of(fixed[2], 0)))
    if op == "rotate_quaternion":
        return A.rotate_quaternion(*[float(rat(q)) for q in fixed[0]])
    if op.startswith("transform"):
        return getattr(A, op)(algebra.matrix_of(fixed[0], float))
    if op.endswith("_beta"):
        return getattr(A, op[:6])(beta=params[0])
    if op.endswith("_gamma"):
        return getattr(A, op[:6])(gamma=params[0])
    if op in ("is_parallel", "is_antiparallel", "is_perpendicular"):
        return getattr(A, op)(B, params[0])
    if op in ("is_timelike", "is_spacelike", "is_lightlike"):
        return getattr(A, op)(params[0])
    return getattr(A, op)(B)


def stored_rows(vecs, sig):
    return [[float(x) for x in coords.store(v, sig)] for v in vecs]


def make_array(kind, rows, names):
    """kind: np1 | np2 | akflat | akjag | akopt ; returns (array, restore) where restore maps a flat
    result list back from the array result, and `shape` describes the structure to be preserved."""
    import awkward as ak
    import vector

    n = len(rows)
    if kind in ("np1int", "akflatint"):
        # integer-typed columns (accepted by the constructors): results must still be the float values
        if not all(float(x).is_integer() for r in rows for x in r):
            raise NotIntegral()
        if kind == "np1int":
            return vector.array({nm: numpy.array([int(r[i]) for r in rows], dtype=numpy.int64) for i, nm in enumerate(names)})
        return vector.Array([dict(zip(names, [int(x) for x in r])) for r in rows])
    if kind == "np1":
        return vector.array({nm: numpy.array([r[i] for r in rows]) for i, nm in enumerate(names)})
    if kind == "np2":
        return vector.array({nm: numpy.array([r[i] for r in rows]).reshape(2, n // 2) for i, nm in enumerate(names)})
    recs = [dict(zip(names, r)) for r in rows]
    if kind == "akraw":
        # records named by ak.with_name whose fields keep the user's own spelling (vector.Array would rename them):
        # every synonym of the temporal coordinate in turn
        momentum = any(nm in ("px", "py", "pt", "pz", "E", "mass") for nm in names)
        k = RAW_COUNTER[0] = RAW_COUNTER[0] + 1
        alt = {"E": ["E", "e", "energy"][k % 3], "mass": ["mass", "M", "m"][k % 3]}
        cols = {alt.get(nm, nm): numpy.array([r[i] for r in rows], dtype=float) for i, nm in enumerate(names)}
        dim = len(names)
        arr = ak.zip(cols, with_name=("Momentum" if momentum else "Vector") + f"{dim}D")
        return ak.Array(arr, behavior=vector.backends.awkward.behavior)
    if kind == "akflat":
        return vector.Array(recs)
    if kind == "akjag":
        counts = jag_counts(n)
        return vector.Array(ak.unflatten(ak.Array(recs), counts))
    if kind == "akopt":
        lst = []
        for i, r in enumerate(recs):
            lst.append(r)
            if i % 3 == 1:
                lst.append(None)
        return vector.Array(ak.Array(lst))
    raise KeyError(kind)


RAW_COUNTER = [0]


class NotIntegral(Exception):
    pass


def jag_counts(n):
    counts, left, k = [], n, 0
    pattern = [2, 0, 3, 1]
    while left > 0:
        c = min(pattern[k % 4], left)
        counts.append(c)
        left -= c
        k += 1
    counts.append(0)
    return counts


def param_array(kind, vals, n):
    import awkward as ak

    a = numpy.array(vals)
    if kind in ("np1", "np1int"):
        return a
    if kind == "akflatint":
        return ak.Array(a)
    if kind == "np2":
        return a.reshape(2, n // 2)
    if kind in ("akflat", "akraw"):
        return ak.Array(a)
    if kind == "akjag":
        return ak.unflatten(ak.Array(a), jag_counts(n))
    if kind == "akopt":
        lst = []
        for i, v in enumerate(vals):
            lst.append(v)
            if i % 3 == 1:
                lst.append(None)
        return ak.Array(lst)


def flat_result(kind, out, rk, n):
    """Flatten an array result to a list of per-element values (vectors as stored dicts) and check
    that the structure of the operand was preserved."""
    import awkward as ak
    import vector

    problems = []
    if kind == "np1int":
        kind = "np1"
    if kind in ("akflatint", "akraw"):
        kind = "akflat"
    if kind in ("np1", "np2") and isinstance(out, ak.Array):
        # NumPy array combined with an Awkward record: the result is an Awkward array of the same shape
        lst = ak.to_list(out)
        if kind == "np2":
            if len(lst) != 2 or any(len(x) != n // 2 for x in lst):
                problems.append("shape of the Awkward result differs from the NumPy operand's")
            lst = [y for x in lst for y in x]
        if rk == "vec":
            if not isinstance(out, vector.backends.awkward.VectorAwkward):
                return None, ["Awkward result has no vector behavior"]
            sig = coords.sig_of(out)
            names = coords.field_names(sig)
            return [(sig, [float(getf(d, nm)) for nm in names]) for d in lst], problems
        return lst, problems
    if kind in ("np1", "np2"):
        want_shape = (n,) if kind == "np1" else (2, n // 2)
        if rk == "vec":
            if not isinstance(out, vector.VectorNumpy):
                return None, [f"result is {type(out).__name__}, not a NumPy vector array"]
            if tuple(out.shape) != want_shape:
                problems.append(f"shape {tuple(out.shape)} instead of {want_shape}")
            sig = coords.sig_of(out)
            cols = list(out.azimuthal.elements) + (list(out.longitudinal.elements) if len(sig) > 1 else []) + (list(out.temporal.elements) if len(sig) > 2 else [])
            cols = [numpy.asarray(c).ravel() for c in cols]
            return [(sig, [float(c[i]) for c in cols]) for i in range(len(cols[0]))], problems
        arr = numpy.asarray(out)
        if tuple(arr.shape) != want_shape:
            problems.append(f"shape {tuple(arr.shape)} instead of {want_shape}")
        return [x.item() for x in arr.ravel()], problems
    # awkward
    if not isinstance(out, ak.Array):
        return None, [f"result is {type(out).__name__}, not an Awkward array"]
    lst = ak.to_list(out)
    if kind == "akjag":
        counts = [len(x) for x in lst]
        if counts != jag_counts(n):
            problems.append(f"list lengths {counts} instead of {jag_counts(n)}")
        lst = [y for x in lst for y in x]
    if kind == "akopt":
        want_none = [i for i, _ in enumerate(range(n + len([k for k in range(n) if k % 3 == 1])))]
        pos, expect_none = 0, []
        for i in range(n):
            pos += 1
            if i % 3 == 1:
                expect_none.append(pos)
                pos += 1
        got_none = [i for i, x in enumerate(lst) if x is None or (isinstance(x, dict) and all(v is None for v in x.values()))]
        if got_none != expect_none:
            problems.append(f"missing positions {got_none} instead of {expect_none}")
        lst = [x for i, x in enumerate(lst) if i not in got_none]
    if rk == "vec":
        if not isinstance(out, vector.backends.awkward.VectorAwkward):
            return None, ["Awkward result has no vector behavior"]
        sig = coords.sig_of(out)
        names = coords.field_names(sig)
        return [(sig, [float(getf(d, nm)) for nm in names]) for d in lst], problems
    return lst, problems


FIELD_SPELLINGS = {"x": ["x", "px"], "y": ["y", "py"], "rho": ["rho", "pt"], "phi": ["phi"], "z": ["z", "pz"], "theta": ["theta"], "eta": ["eta"],
                   "t": ["t", "E", "e", "energy"], "tau": ["tau", "M", "m", "mass"]}


def getf(d, nm):
    """A coordinate of a record under whichever spelling the array carries it."""
    for k in FIELD_SPELLINGS[nm]:
        if k in d:
            return d[k]
    raise KeyError(nm)


def compare(rk, got, ref, scale):
    tol = 1e-12 * scale
    if rk == "bool":
        return bool(got) == bool(ref)
    if rk == "num":
        g, r = float(got), float(ref)
        if numpy.isnan(g) or numpy.isnan(r):
            return numpy.isnan(g) and numpy.isnan(r)
        if numpy.isinf(g) or numpy.isinf(r):
            return g == r
        return abs(g - r) <= tol
    (gs, gv), (rs, rv) = got, ref
    if tuple(gs) != tuple(rs):
        return False
    for k, (a, b) in enumerate(zip(gv, rv)):
        if numpy.isnan(a) or numpy.isnan(b):
            if not (numpy.isnan(a) and numpy.isnan(b)):
                return False
        elif numpy.isinf(a) or numpy.isinf(b):
            if a != b:
                return False
        elif abs(a - b) > tol:
            if k == 3 and len(gs) == 3 and gs[2] == "tau" and abs(a * abs(a) - b * abs(b)) <= tol * scale:
                continue      # tau = sign * sqrt|t^2 - p^2| next to the light cone is the square root of a rounding residue: compared as tau2
            return False
    return True


def obj_of(vec, sig, flavor):
    import vector

    names = coords.field_names(sig)
    if flavor == "momentum":
        names = [coords.MOM_NAMES[n] for n in names]
    return vector.obj(**{nm: numpy.float64(float(x)) for nm, x in zip(names, coords.store(vec, sig))})


def ref_value(rk, out):
    if rk == "vec":
        sig = coords.sig_of(out)
        els = list(out.azimuthal.elements) + (list(out.longitudinal.elements) if len(sig) > 1 else []) + (list(out.temporal.elements) if len(sig) > 2 else [])
        return (sig, [float(e) for e in els])
    if rk == "bool":
        return bool(out)
    return float(out)


LAYOUTS = ["np1", "np2", "akflat", "akjag", "akopt", "akraw"]
INT_LAYOUTS = ["np1int", "akflatint"]
# how the second vector operand is supplied: same layout array, single object, single Awkward record
B_FORMS = ["array", "object", "record", "numpy-for-awkward"]


def _integral(c):
    return all(t[2] == 1 for t in c["a"]) and all(t[2] == 1 for t in (c["b"] or []))


def run_group(key, cases, full, only_int=False, chunk=0):
    import awkward as ak
    import vector

    recs, calls = [], 0
    if not only_int:
        # integer-typed arrays: the integral operand tuples of the group, in Cartesian storage
        ints = [c for c in cases if _integral(c)]
        if len(ints) >= 2:
            r, c_, n_ = run_group(key, ints, full, only_int=True, chunk=chunk)
            recs += r
            calls += c_
    op, na, nb, fixed = json.loads(key)
    fixed = json.loads(fixed) if fixed else None
    if op in SKIP_OPS:
        return recs, 0, 0
    rk = result_kind(op)
    if len(cases) % 2:
        cases = cases[:-1]
    if len(cases) < 2:
        return recs, 0, 0
    cases = cases[:40]
    n = len(cases)
    va = [algebra.vec_of(c["a"]) for c in cases]
    vb = [algebra.vec_of(c["b"]) for c in cases] if nb else None
    sigsa = list(coords.signatures(na))
    sigsb = list(coords.signatures(nb)) if nb else [None]
    combos = list(itertools.product(sigsa, sigsb))
    h = hsh(key, chunk)          # each chunk of a big group visits other coordinate-system pairings
    if only_int:
        combos = [(coords.CANON[na], coords.CANON[nb] if nb else None)]
    elif not full:
        combos = [combos[(h + 11 * k) % len(combos)] for k in range(2)]
    elif len(combos) > 12:
        combos = [combos[(h + 5 * k) % len(combos)] for k in range(12)]
    pvals = [scalar_params(c) for c in cases]
    nparams = len(pvals[0])
    cases_all, va_all, vb_all, pvals_all = cases, va, vb, pvals
    scale = 1 + max([abs(float(x)) for v in va for x in v] + ([abs(float(x)) for v in vb for x in v] if vb else []))
    scale = scale * scale * 10
    # the operator / ufunc spellings are table entries per record name (Vector2D ... Momentum4D): both flavors always
    both = op in OPFORMS or op in ("np_sqrt", "np_cbrt", "np_power")
    combos = [(sa, sb, fl) for sa, sb in combos for fl in ((0, 1) if both and not only_int else (None,))]
    def do_combo(sa, sb, fl, cases, va, vb, pvals, n, retry=True):
        nonlocal calls
        fa = "momentum" if hsh(key, sa, "fa") % 2 else "generic"
        fb = "momentum" if hsh(key, sb, "fb") % 2 else "generic"
        if fl is not None:
            fa = ("generic", "momentum")[fl]
            fb = ("generic", "momentum")[(fl + hsh(key, sb, "fb")) % 2]
        # reference: the object backend, one call per element
        refs = []
        with warnings.catch_warnings(), numpy.errstate(all="ignore"):
            warnings.simplefilter("ignore")
            for i in range(n):
                A = obj_of(va[i], sa, fa if op not in algebra.MOMENTUM_ONLY else "momentum")
                B = obj_of(vb[i], sb, fb) if nb else None
                try:
                    refs.append(ref_value(rk, call(op, A, B, [numpy.float64(x) for x in pvals[i]], fixed, OPFORMS.get(op, ["method"])[0])))
                except Exception as ex:
                    refs.append(("error", type(ex).__name__))
        bad = {i for i, r in enumerate(refs) if isinstance(r, tuple) and r and r[0] == "error"}
        if bad:
            # operand tuples on which the object backend itself raises (singular): left out, the others still run
            ok = [i for i in range(n) if i not in bad]
            if len(ok) % 2:
                ok = ok[:-1]
            if retry and len(ok) >= 2:
                do_combo(sa, sb, fl, [cases[i] for i in ok], [va[i] for i in ok], [vb[i] for i in ok] if nb else None, [pvals[i] for i in ok], len(ok), retry=False)
            return
        namesa = coords.field_names(sa)
        fa_eff = fa if op not in algebra.MOMENTUM_ONLY else "momentum"
        if fa_eff == "momentum":
            namesa = [coords.MOM_NAMES[x] for x in namesa]
        rowsa = stored_rows(va, sa)
        for layout in (INT_LAYOUTS if only_int else LAYOUTS):
            forms = ["array"] if not nb else (B_FORMS if full else ["array", B_FORMS[1 + (hsh(key, layout) % 3)]])
            for bform in forms:
                pforms = (["array", "scalar"] if nparams and len({json.dumps(p) for p in pvals}) == 1 else ["array"]) if nparams else ["none"]
                oforms = OPFORMS.get(op, ["method"])
                if not full:
                    oforms = [oforms[hsh(key, layout, bform, "of") % len(oforms)]] if len(oforms) > 1 and layout not in ("np1", "akjag") else oforms
                for pform, oform in itertools.product(pforms, oforms):
                    if oform != "method" and op == "scale" and pform != "scalar":
                        continue      # the operator spellings take plain numbers
                    base = {"op": op, "sig": [sa, sb], "tag": "c03", "layout": layout, "bform": bform, "pform": pform, "oform": oform}
                    try:
                        A = make_array(layout, rowsa, namesa)
                        B = None
                        idx = list(range(n))
                        if nb:
                            namesb = coords.field_names(sb)
                            if fb == "momentum":
                                namesb = [coords.MOM_NAMES[x] for x in namesb]
                            if bform == "array":
                                B = make_array(layout, stored_rows(vb, sb), namesb)
                            elif bform == "numpy-for-awkward":
                                if layout not in ("akflat", "akflatint", "akraw"):
                                    continue
                                B = make_array("np1", stored_rows(vb, sb), namesb)
                            else:
                                # a single vector broadcast against the array: only elements whose b equals vb[0] are comparable
                                single = obj_of(vb[0], sb, fb)
                                if bform == "record":
                                    single = vector.Array([dict(zip(namesb, stored_rows([vb[0]], sb)[0]))])[0]
                                B = single
                        params = []
                        for k in range(nparams):
                            vals = [p[k] for p in pvals]
                            params.append(vals[0] if pform == "scalar" else param_array(layout, vals, n))
                        from .session import digest as _digest

                        before = (_digest(A), _digest(B) if not isinstance(B, (int, float)) else None)
                        with warnings.catch_warnings(), numpy.errstate(all="ignore"):
                            warnings.simplefilter("ignore")
                            out = call(op, A, B, params, fixed, oform)
                        calls += 1
                        # the arrays handed in are what the next call will see: they must still hold the same elements
                        after = (_digest(A), _digest(B) if not isinstance(B, (int, float)) else None)
                        if after != before:
                            recs.append(dict(base, kind="operand-array-changed-by-the-call", which="first" if after[0] != before[0] else "second"))
                    except NotIntegral:
                        continue
                    except Exception as ex:
                        recs.append(dict(base, kind="exception", error=f"{type(ex).__name__}: {ex}"[:300]))
                        continue
                    try:
                        flat, problems = flat_result(layout, out, rk, n)
                    except Exception as ex:
                        # the result does not have the fields its own coordinate system announces
                        recs.append(dict(base, kind="result-inconsistent-with-its-own-coordinate-system", error=f"{type(ex).__name__}: {ex}"[:200],
                                         got=repr(out)[:200]))
                        continue
                    for pb in problems:
                        recs.append(dict(base, kind="structure-not-preserved", got=pb))
                    if flat is None or len(flat) != n:
                        if flat is not None:
                            recs.append(dict(base, kind="wrong-number-of-elements", got=len(flat), want=n))
                        continue
                    nbad = 0
                    for i in range(n):
                        if nb and bform in ("object", "record") and vb[i] != vb[0]:
                            continue
                        if not compare(rk, flat[i], refs[i], scale):
                            recs.append(dict(base, kind="element-differs-from-object-backend", index=i, got=repr(flat[i])[:200],
                                             want=repr(refs[i])[:200], case=cases[i], strata=algebra.strata(cases[i]),
                                             params=json.dumps(cases[i]["p"])))
                            nbad += 1
                            if nbad >= 8:
                                break

    total_n = 0
    for sa, sb, fl in combos:
        # the operand tuples this pairing can store (an on-axis vector has no eta, ...): the others are left out of this
        # pairing instead of removing the pairing for the whole group
        keep = [i for i in range(len(cases)) if coords.representable(va_all[i], sa) and (not nb or coords.representable(vb_all[i], sb))]
        if nb:
            pass
        # elements on which the object backend itself raises (singular operands) are left out too
        if len(keep) % 2:
            keep = keep[:-1]
        if len(keep) < 2:
            continue
        do_combo(sa, sb, fl, [cases_all[i] for i in keep], [va_all[i] for i in keep], [vb_all[i] for i in keep] if nb else None,
                 [pvals_all[i] for i in keep], len(keep))
        total_n = max(total_n, len(keep))
    n = total_n
    return recs, calls, n


def worker(args):
    groups, full = args
    out = {"records": [], "calls": 0, "elements": 0, "groups": 0}
    for key, cases in groups:
        try:
            r, c, n = run_group(key[0], cases, full, chunk=key[1]) if isinstance(key, tuple) else run_group(key, cases, full)
        except Exception as ex:
            from . import common as _c
            r, c, n = [_c.crash_record(json.loads(key[0] if isinstance(key, tuple) else key)[0], ex, group=key)], 0, 0
        out["records"] += r
        out["calls"] += c
        out["elements"] += n * c
        out["groups"] += 1 if c else 0
    return out


def replay(cases, full=False, procs=16):
    import multiprocessing as mp

    groups = {}
    for c in cases:
        if c["exp"][0] == "undef" and False:
            continue
        groups.setdefault(group_key(c), []).append(c)
    items = sorted(groups.items())
    # big groups are split so that more operand values are exercised
    split = []
    for key, cs in items:
        for k in range(0, len(cs), 40):
            split.append(((key, k // 40), cs[k:k + 40]))
            if not full and k >= 80:
                break
    n = max(1, min(procs, len(split)))
    chunks = [split[i::n * 2] for i in range(n * 2)]
    chunks = [c for c in chunks if c]
    total = {"records": [], "calls": 0, "elements": 0, "groups": 0}
    with mp.get_context("fork").Pool(n) as pool:
        for out in pool.imap_unordered(worker, [(c, full) for c in chunks]):
            total["records"] += out["records"]
            for k in ("calls", "elements", "groups"):
                total[k] += out[k]
    return total
