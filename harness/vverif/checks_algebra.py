"""Checks decided by the one-call cases of Cases.tla: C01, C02, C13."""
from __future__ import annotations

import json

from . import algebra, common, coords, tlc

PRED_OPS = {"is_parallel", "is_antiparallel", "is_perpendicular", "is_timelike", "is_spacelike", "is_lightlike"}

TRUSTED = ["TLC 1.8 (tla2tools)", "spec/Num.tla, Algebra.tla, Lattice.tla, Cases.tla",
           "harness/vverif/terms.py (evaluation of primitive term heads with mpmath, 60 digits)",
           "harness/vverif/coords.py (gamma/alpha: stored <-> Cartesian by its own formulas)",
           "harness/vverif/mplib.py (IEEE-like 60-digit lib adapter; the object backend's own code runs on it)"]


def run_cases(tier, modes=("mp", "f64"), groups=None):
    cases, stats = tlc.gen_cases(tier, groups or tlc.CASE_GROUPS)
    out = {"cases": cases, "stats": stats, "modes": {}}
    for mode in modes:
        out["modes"][mode] = algebra.replay(cases, tier, mode)
    return out


def flatten(run, select):
    recs = []
    for mode, res in run["modes"].items():
        for r in res["records"]:
            if select(r):
                rec = dict(r)
                rec["op"] = r["case"]["op"]
                recs.append(rec)
    return recs


def coverage_of(run, prop, select_case, tier):
    cases = [c for c in run["cases"] if select_case(c)]
    ops = sorted({c["op"] for c in cases})
    calls = sum(res["calls"] for res in run["modes"].values())
    compared = sum(res["compared"] for res in run["modes"].values())
    variants = set()
    for res in run["modes"].values():
        variants |= set(res["hits"])
    nontrivial = len({json.dumps([c["op"], c["a"], c["b"], c["p"]]) for c in cases if c["exp"][0] != "undef"})
    disp = {}
    for res in run["modes"].values():
        for k, v in res.get("dispatch", {}).items():
            disp[k] = disp.get(k, 0) + v
    unexecuted = sorted(k for k, v in disp.items() if v == 0)
    modules_zero = sorted({k.split(":")[0] for k in disp} - {k.split(":")[0] for k, v in disp.items() if v})
    samples = [cases[i] for i in range(0, len(cases), max(1, len(cases) // 3))][:3]
    return {
        "states": run["stats"]["distinct"],
        "transitions": run["stats"]["generated"],
        "traces_validated_against_impl": len(cases),
        "samples": samples,
        "evaluations": calls,
        "distinct_nontrivial": nontrivial,
        "rule": ("cases = states of spec/Cases.tla enumerated exhaustively by TLC over the stratified rational lattice "
                 f"(tier {tier}); each is replayed through the public API in the admissible coordinate-system "
                 "signatures (mp 60-digit object backend and float64 object backend) and compared with the "
                 "specification's exact expectation; non-trivial = the specification defines a value"),
        "operations": ops,
        "implementation_calls": calls,
        "comparisons": compared,
        "distinct_op_signature_variants_executed": len(variants),
        "compute_layer_dispatch_variants_total": len(disp),
        "compute_layer_dispatch_variants_executed": len(disp) - len(unexecuted),
        "compute_layer_dispatch_variants_not_executed_sample": unexecuted[:12],
        "compute_modules_never_executed": modules_zero,
        "exhaustive": False,
        "checker_cmd": "java -cp tla2tools.jar tlc2.TLC -config GEN(Cases) spec/Cases.tla ; harness/vverif/algebra.py replay",
        "trusted_base": TRUSTED,
    }


ASSUME = ["the quantifier over all real operands is approximated by the stratified exact rational lattice of spec/Lattice.tla",
          "60-digit mpmath evaluation of the primitive functions is taken as exact to 1e-40 relative",
          "float64 results are accepted within 1e-9 * scale (1e-6 on square-root branch points), a sampled accuracy check, not model-checked"]


def trace_records(run, select_case, step):
    """code -> spec: a seeded random-signature execution of the cases on the 60-digit object backend is
    recorded and every event is judged by TLC (AlgebraTrace.tla: exact equality with Eval on the
    operands' denotation).  Returns (records, summary)."""
    import mpmath

    cases = [c for c in run["cases"] if select_case(c) and not c["op"].startswith("rawtau_")][::step]
    events = algebra.record_trace(cases, seed=common.seed())
    verdicts, summary, st = algebra.validate_trace(events)
    recs = []
    for vd in verdicts:
        e = events[vd["line"] - 1]
        case = {"op": e["op"], "a": e["a"], "b": e["b"], "p": e["p"]}
        canon = tuple(e["sa"]) == coords.CANON[len(e["a"])] and (not e["b"] or tuple(e["sb"]) == coords.CANON[len(e["b"])])
        got = e["got"]
        gs = mpmath.nstr(mpmath.mpf(got[1][1]) / got[1][2], 30) if got[0] == "num" else json.dumps(got)
        recs.append({"kind": "C02" if canon else "C01", "op": e["op"], "sig": [tuple(e["sa"]), tuple(e["sb"]) if e["sb"] else None],
                     "tag": "trace-rejected:" + vd["verdict"], "got": gs, "want": json.dumps(vd.get("want"))[:300], "case": case,
                     "strata": algebra.strata(case), "mode": "mp-trace"})
    summary = dict(summary, tlc_states=st["distinct"])
    return recs, summary


def _finish(prop, tier, run, recs, select_case, trace=None):
    v = common.Verdicts(prop)
    v.extend(recs)
    nviol, nknown = v.finish()
    cov = coverage_of(run, prop, select_case, tier)
    if trace is not None:
        cov["recorded_trace_events"] = trace["events"]
        cov["recorded_trace_events_accepted_exactly_by_TLC"] = trace["accepted"]
        cov["recorded_trace_events_not_decidable_exactly"] = trace["undecided"]
        cov["traces_validated_against_impl"] += 1
        cov["states"] += trace["tlc_states"]
        cov["checker_cmd"] += " ; tlc2.TLC AlgebraTrace.tla with TRACE_FILE"
    if cov["traces_validated_against_impl"] < 2 or cov["comparisons"] < 2:
        raise RuntimeError("vacuous run: no cases compared")
    return {"level": "model_checking", "coverage": cov, "violations": nviol, "known": nknown,
            "assumptions": ASSUME,
            "summary": f"{cov['traces_validated_against_impl']} spec cases, {cov['implementation_calls']} API calls, "
                       f"{cov['distinct_op_signature_variants_executed']} op/signature variants"}


def _tier(tier):
    return "quick" if tier == "quick" else "full"


def check_c01(tier):
    run = run_cases(_tier(tier))
    recs = flatten(run, lambda r: r["kind"] in ("C01", "error"))
    trecs, tsum = trace_records(run, lambda c: True, 2 if tier == "quick" else 3)
    recs += [r for r in trecs if r["kind"] == "C01"]
    # the numba backend re-implements the lookup by coordinate-type signature: the same cases compiled, in
    # sampled signature pairings (a different sample from C07's: the seed is offset), against the interpreter
    from . import numbax

    nres = numbax.replay([c for c in run["cases"] if not c["op"].startswith("rawtau_")], [], tier="quick" if tier == "quick" else "full",
                         seed=common.seed() + 1, only_jobs=True)
    recs += nres["records"]
    out = _finish("C01", tier, run, recs, lambda c: True, trace=tsum)
    out["coverage"]["numba_compiled_signature_jobs"] = nres["jobs"]
    out["coverage"]["numba_comparisons"] = nres["calls"]
    return out


def check_c02(tier):
    run = run_cases(_tier(tier))
    # the documented definition must come out in every storage: a disagreement with the specification's
    # value is reported here whichever signature exhibits it (C01 reports the same records as a
    # dependence on the storage)
    # (a stored rho < 0 or phi outside [-pi, pi] of a result is a wrong answer of the rho / phi accessor on that result)
    recs = flatten(run, lambda r: r["kind"] in ("C02", "C01", "range") and r["case"]["op"] not in PRED_OPS)
    trecs, tsum = trace_records(run, lambda c: c["op"] not in PRED_OPS, 2 if tier == "quick" else 3)
    recs += trecs
    from . import numbax

    nres = numbax.replay([c for c in run["cases"] if c["op"] not in PRED_OPS and not c["op"].startswith("rawtau_")], [],
                         tier="quick" if tier == "quick" else "full", seed=common.seed() + 4, only_jobs=True)
    recs += nres["records"]
    out = _finish("C02", tier, run, recs, lambda c: c["op"] not in PRED_OPS, trace=tsum)
    out["coverage"]["numba_compiled_signature_jobs"] = nres["jobs"]
    return out


RANGE_OPS = {"phi", "deltaphi", "theta", "deltaangle", "rho", "mag", "rho2", "mag2", "t2", "costheta", "cottheta",
             "t", "tau", "beta", "gamma", "eta"}


def check_c13(tier):
    # every group: the stored phi / rho / theta of every vector-valued result are range-checked too
    run = run_cases(_tier(tier))
    recs = flatten(run, lambda r: r["kind"] == "range" or (r["case"]["op"] in PRED_OPS and r["kind"] in ("C01", "C02", "error"))
                   or (r["case"]["op"] in RANGE_OPS and r["kind"] == "C02")
                   or (r["case"]["op"].startswith("rawtau_") and r["kind"] in ("C01", "C02", "error")))
    # the predicates compiled with numba (its overload builds the kernel signature itself), in sampled signature pairings
    from . import numbax

    nres = numbax.replay([c for c in run["cases"] if c["op"] in PRED_OPS], [], tier="quick" if tier == "quick" else "full",
                         seed=common.seed() + 3, only_jobs=True)
    recs += nres["records"]
    out = _finish("C13", tier, run, recs, lambda c: True)
    out["coverage"]["numba_compiled_predicate_jobs"] = nres["jobs"]
    return out


def replay_file(prop, path):
    with open(path) as f:
        d = json.load(f)
    cases = [r["case"] for r in d["records"] if "case" in r]
    bad = 0
    for mode in ("mp", "f64"):
        res = algebra.replay(cases, "full", mode, procs=1)
        for r in res["records"]:
            bad += 1
            print(json.dumps({k: r[k] for k in r if k != "case"}, default=common.jdefault)[:500])
    print(f"replayed {len(cases)} cases: {bad} disagreements")
    return 1 if bad else 0
