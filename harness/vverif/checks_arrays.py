"""C03 (backends agree), C17 (reductions), C18 (Awkward structure), C19 (NumPy indexing)."""
from __future__ import annotations

import json
import os

from . import arraysx, c03x, common, tlc

INV = "INVARIANT RowsAndColumnsSumToTotal\nINVARIANT IndexInRange\nINVARIANT BroadcastSound\nINVARIANT Emit\n"


def gen_part(part):
    key = tlc.spec_hash("arrays", part)
    cache = os.path.join(tlc.SCRATCH_ROOT, "vverif-cache", f"arrays-{part}-{key}.json")
    os.makedirs(os.path.dirname(cache), exist_ok=True)
    if os.path.exists(cache):
        try:
            with open(cache) as f:
                d = json.load(f)
            return d["items"], d["stats"]
        except Exception:
            pass
    cfg = f'SPECIFICATION Spec\nCONSTANTS\n  Part = "{part}"\n' + INV + "CHECK_DEADLOCK FALSE\n"
    r = tlc.run_tlc("Arrays", cfg, workers=4, xmx="4g")
    items = tlc.parse_cases(r["lines"], "@@ARR ")
    if len(items) != r["distinct"] or not items:
        raise tlc.TLCError(f"Arrays[{part}]: {len(items)} cases parsed, {r['distinct']} distinct states")
    stats = {"generated": r["generated"], "distinct": r["distinct"]}
    tmp = cache + f".{os.getpid()}.tmp"
    with open(tmp, "w") as f:
        json.dump({"items": items, "stats": stats}, f)
    os.replace(tmp, cache)
    return items, stats


def _array_check(prop, part, tier, rule, extra_assume):
    items, stats = gen_part(part)
    res = arraysx.replay(part, items, "all" if (tier == "thorough" or part == "reduce") else "sample")
    v = common.Verdicts(prop)
    v.extend(res["records"])
    nviol, nknown = v.finish()
    if res["calls"] < 100:
        raise RuntimeError("vacuous run")
    cov = {"states": stats["distinct"], "transitions": stats["generated"], "traces_validated_against_impl": len(items),
           "samples": [items[0]["case"], items[len(items) // 2]["case"]], "implementation_calls": res["calls"],
           "evaluations": res["calls"], "distinct_nontrivial": len(items), "rule": rule,
           "exhaustive": tier == "thorough" or part == "reduce",
           "checker_cmd": f"tlc2.TLC Arrays.tla (Part = {part}); harness/vverif/arraysx.py",
           "trusted_base": ["TLC 1.8", "spec/Arrays.tla, Num.tla", "harness/vverif/arraysx.py", "harness/vverif/coords.py"]}
    return {"level": "model_checking", "coverage": cov, "violations": nviol, "known": nknown, "assumptions": extra_assume,
            "summary": f"{len(items)} array states, {res['calls']} API calls"}


def check_c17(tier):
    return _array_check("C17", "reduce", tier,
                        "states of spec/Arrays.tla (Part reduce): 1-D and 2-D NumPy arrays and ragged Awkward arrays (with empty lists, missing lists, "
                        "missing elements, depth 3) over a pool of exact Cartesian elements, with the exact component-wise Cartesian sums / counts per "
                        "axis and keepdims computed by TLC (invariant RowsAndColumnsSumToTotal); each state is executed in every coordinate system of "
                        "the dimension that can represent its elements and in both flavors through numpy.sum, .sum(), numpy.count_nonzero, ak.sum, "
                        "ak.count, ak.count_nonzero and compared with the exact values (1e-9 relative), shapes, missing positions and flavor",
                        ["float64 sums of polar-stored elements are compared at 1e-9 relative to the scale of the elements"])


def check_c19(tier):
    return _array_check("C19", "index", tier,
                        "states of spec/Arrays.tla (Part index): shapes up to 3 dimensions x index expressions (full integer index, first-axis integer, "
                        "slices with clipping, boolean masks, reshape, view, copy, deepcopy, pickle, asarray, asanyarray, field access) with the row-major "
                        "element mapping computed by TLC (invariant IndexInRange); each state is executed on NumPy vector arrays in sampled (thorough: all "
                        "20) coordinate systems and both flavors: selected elements bit-identical, class / system / flavor / dtype kept, integer index gives "
                        "the equivalent vector object, field access (geometric name and momentum synonym) gives the stored column; plus the array forms of "
                        "vector objects (__array__, asanyarray, asarray) in all 20 systems and both flavors",
                        ["element values are taken from a pool of five exact lattice points laid out cyclically"])


def check_c18(tier):
    return _array_check("C18", "layout", tier,
                        "states of spec/Arrays.tla (Part layout): flat, empty, variable-length, option-at-list-level, option-at-record-level, depth-3 and "
                        "regular layouts with the required result structure MapLayout computed by TLC; each layout is built as an Awkward vector array "
                        "with extra fields (charge, label) in sampled (thorough: all) coordinate systems and both flavors; one-vector operations must keep "
                        "list structure, missing positions, nesting and carry every extra field, two-vector operations return coordinates only, scalar "
                        "operations keep the structure, every element equals the object-backend result, and records selected from the array behave like "
                        "the equivalent object",
                        ["vector.Array turns option[record] into records of missing fields: both forms are treated as a missing element"])


def check_c03(tier):
    t = "quick" if tier == "quick" else "full"
    cases, stats = tlc.gen_cases(t)
    res = c03x.replay(cases, full=(tier == "thorough"))
    # broadcasting of two operands of different shapes / list structures (spec/Arrays.tla, Part broadcast)
    bitems, bstats = gen_part("broadcast")
    bres = arraysx.replay("broadcast", bitems, "all" if tier == "thorough" else "sample")
    v = common.Verdicts("C03")
    v.extend(res["records"])
    v.extend(bres["records"])
    nviol, nknown = v.finish()
    if res["calls"] < 500 or res["groups"] < 50:
        raise RuntimeError("vacuous run")
    ops = sorted({c["op"] for c in cases} - c03x.SKIP_OPS)
    cov = {"states": stats["distinct"] + bstats["distinct"], "transitions": stats["generated"] + bstats["generated"],
           "traces_validated_against_impl": res["groups"] + len(bitems),
           "samples": [cases[0], bitems[len(bitems) // 2]["case"]], "operations": ops, "array_calls": res["calls"] + bres["calls"],
           "broadcast_states": len(bitems), "broadcast_calls": bres["calls"],
           "elements_compared": res["elements"], "layouts": c03x.LAYOUTS, "second_operand_forms": c03x.B_FORMS,
           "evaluations": res["calls"], "distinct_nontrivial": res["groups"],
           "rule": ("the one-call cases enumerated by TLC from spec/Cases.tla are grouped by operation (up to 40 operand tuples per group); each group "
                    "is evaluated as NumPy 1-D / 2-D arrays and Awkward flat / jagged / option-typed arrays in sampled coordinate-system pairings and "
                    "flavors, scalar parameters as arrays of the same layout or as scalars, the second vector operand as an array, a single object, "
                    "an Awkward record or a NumPy array against an Awkward one; every element of the result must equal the object-backend result on "
                    "the identical float64 inputs (1e-12 relative) and the shape / list lengths / missing positions must be the operand's; "
                    "operator and ufunc spellings (+, -, *, /, @, ==, !=, abs, **, numpy.add ... numpy.power) in both flavors; plus the states of "
                    "spec/Arrays.tla (Part broadcast, invariant BroadcastSound): pairs of NumPy shapes (right-aligned, extent 1 stretches) and "
                    "variable-length Awkward lists against flat / equally structured operands with the operand positions each result element "
                    "must be computed from, or the requirement that the pairing is refused - executed for vector x vector and vector x "
                    "parameter-array operations"),
           "exhaustive": False, "checker_cmd": "tlc2.TLC Cases.tla; tlc2.TLC Arrays.tla (Part = broadcast); harness/vverif/c03x.py, arraysx.py",
           "trusted_base": ["TLC 1.8", "spec/Cases.tla", "spec/Arrays.tla", "harness/vverif/c03x.py", "harness/vverif/arraysx.py"]}
    return {"level": "model_checking", "coverage": cov, "violations": nviol, "known": nknown,
            "assumptions": ["the object backend is the reference (its values are checked against the specification by C01/C02)"],
            "summary": f"{res['groups']} operation groups, {res['calls']} array calls, {res['elements']} elements compared"}


def replay_file(prop, path):
    with open(path) as f:
        d = json.load(f)
    for r in d["records"][:5]:
        print(json.dumps(r, default=str)[:600])
    print("array records are replayed by re-running the check (deterministic enumeration)")
    return 0
