"""C07 (numba) and C08 (SymPy)."""
from __future__ import annotations

import json

from . import common, tlc


def check_c08(tier):
    from . import sympyx

    t = "quick" if tier == "quick" else "full"
    cases, stats = tlc.gen_cases(t)
    res = sympyx.replay(cases, full=(tier == "thorough"))
    # the conversion states of spec/Convert.tla on symbolic vectors
    from .checks_names import gen_conv

    ccases, cstats = gen_conv()
    cres = sympyx.replay_conversions(ccases)
    # coordinate assignment on symbolic vectors (ObjectSM's Set action): what is read afterwards is what the numeric
    # object gives after the same assignment
    from . import objsm

    srecs, scalls = objsm.sympy_setters()
    v = common.Verdicts("C08")
    v.extend(res["records"])
    v.extend(cres["records"])
    v.extend(srecs)
    nviol, nknown = v.finish()
    if res["calls"] < 1000 or res["expressions"] < 200:
        raise RuntimeError("vacuous run")
    regular = [c for c in cases if c["reg"] == "T"]
    cov = {"states": stats["distinct"] + cstats["distinct"], "transitions": stats["generated"] + cstats["generated"], "traces_validated_against_impl": res["cases"] + cres["cases"],
           "samples": [regular[0], regular[len(regular) // 2]], "regular_cases": len(regular),
           "distinct_symbolic_expressions_built": res["expressions"], "conversion_states_executed_symbolically": cres["cases"], "conversion_calls": cres["calls"], "evaluations": res["calls"] + cres["calls"], "distinct_nontrivial": res["cases"],
           "rule": ("cases = states of spec/Cases.tla whose operands satisfy the TLA+ predicate Regular (off-axis, timelike, forward) and whose exact "
                    "result is regular as well; for each case and coordinate-system pairing (quick: 2 sampled, thorough: all) the SymPy backend builds "
                    "the expression with symbolic coordinates and parameters, which is evaluated with 60-digit mpmath at the stored coordinates of the "
                    "lattice point and compared with the specification's exact expectation (1e-35 relative)"),
           "exhaustive": False, "checker_cmd": "tlc2.TLC Cases.tla; harness/vverif/sympyx.py (sympy.lambdify -> mpmath)",
           "trusted_base": ["TLC 1.8", "spec/Cases.tla, Algebra.tla", "harness/vverif/sympyx.py", "sympy.lambdify with the mpmath module"]}
    return {"level": "model_checking", "coverage": cov, "violations": nviol, "known": nknown,
            "assumptions": ["negative gamma (a sign convention the symbolic backend documents it cannot express) and results on branch points are outside the regular domain",
                            "scale() receives its factor as a number (the symbolic backend needs its sign)"],
            "summary": f"{res['cases']} regular cases, {res['expressions']} symbolic expressions, {res['calls']} evaluations"}


def check_c07(tier):
    from . import numbax

    t = "quick" if tier == "quick" else "full"
    cases, stats = tlc.gen_cases("quick")
    progs, pst = tlc.gen_programs("quick", "all")
    res = numbax.replay(cases, progs, tier, seed=common.seed())
    v = common.Verdicts("C07")
    v.extend(res["records"])
    nviol, nknown = v.finish()
    if res["compiled"] < 100 or res["calls"] < 500:
        raise RuntimeError("vacuous run")
    cov = {"states": stats["distinct"] + pst["distinct"], "transitions": stats["generated"] + pst["generated"],
           "traces_validated_against_impl": res["jobs"] + res["programs"] + res["awkward"] + res["extra"],
           "samples": [{"source": "def f(a, b):\n    return a.boost_p4(b)\n"}, {"source": numbax.AK_TEMPLATES["pairwise"].format(binop="deltaR")}],
           "compiled_functions": res["compiled"], "one_call_jobs": res["jobs"], "multi_call_programs": res["programs"],
           "awkward_array_templates": res["awkward"], "operator_conversion_constructor_synonym_items": res["extra"], "comparisons": res["calls"], "supported_members": sorted(numbax.SUPPORTED | set(numbax.MOMENTUM_PROPS)),
           "evaluations": res["calls"], "distinct_nontrivial": res["compiled"],
           "rule": ("programs = one-call cases of spec/Cases.tla for every numba-supported member (per operation: 2 sampled coordinate-system/flavor "
                    "combinations in quick, up to 24 in thorough, each evaluated on up to 12/40 lattice operand tuples) and multi-call programs of "
                    "spec/Laws.tla rendered as one Python function; each is run interpreted and under numba.njit on identical float64 objects: same "
                    "class (flavor, dimension), same coordinate system, values within 1e-11 relative; plus Awkward arrays iterated inside compiled "
                    "functions (property sums, element selection, methods on elements, pairwise binary operations)"),
           "exhaustive": False, "checker_cmd": "tlc2.TLC Cases.tla / Laws.tla; harness/vverif/numbax.py (numba.njit, no on-disk cache)",
           "trusted_base": ["TLC 1.8", "spec/Cases.tla, Laws.tla", "harness/vverif/numbax.py"]}
    return {"level": "model_checking", "coverage": cov, "violations": nviol, "known": nknown,
            "assumptions": ["inputs on which plain Python floats or compiled code raise ZeroDivisionError (x / 0.0) are singular and not compared",
                            "the interpreter is the reference; its values are tied to the specification by C01/C02"],
            "summary": f"{res['compiled']} compiled functions ({res['jobs']} one-call jobs, {res['programs']} programs, {res['awkward']} Awkward templates), {res['calls']} comparisons"}


def replay_file(prop, path):
    with open(path) as f:
        d = json.load(f)
    for r in d["records"][:5]:
        print(json.dumps(r, default=str)[:800])
    return 0
