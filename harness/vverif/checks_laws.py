"""C09 (boosts), C10 (rotations), C11 (vector space / dot / cross / unit)."""
from __future__ import annotations

import json
import os

from . import algebra, common, laws, tlc
from .checks_algebra import TRUSTED, flatten, run_cases

GROUPS = {
    "C09": ("boost", ["boost", "boostaxis"], {"boost_p4", "boost_beta3", "boost", "boostCM_of_p4", "boostCM_of_beta3",
                                              "boostCM_of", "boostX_beta", "boostY_beta", "boostZ_beta", "boostX_gamma",
                                              "boostY_gamma", "boostZ_gamma"}),
    "C10": ("rot", ["rotate", "euler", "quat", "rotaxis"], {"rotateZ", "rotateX", "rotateY", "rotate_euler", "rotate_nautical",
                                                            "rotate_quaternion", "rotate_axis"}),
    "C11": ("space", ["binvec", "scale", "unaryvec", "binnum", "unary"], {"add", "subtract", "scale", "divide", "neg", "dot", "cross",
                                                                          "unit", "abs", "square", "np_sqrt", "np_cbrt", "np_power"}),
}
PROOFS = os.path.join(tlc.SPEC_DIR, "proofs", "LawProofs.tla")


def check(prop, tier):
    lawgroup, casegroups, ops = GROUPS[prop]
    t = "quick" if tier == "quick" else "full"
    progs, pstats = tlc.gen_programs(t, lawgroup)
    variants = 3 if tier == "quick" else 12
    recs = []
    totals = {"calls": 0, "compared": 0}
    for mode in ("mp", "f64"):
        res = laws.replay(progs, mode, variants)
        totals["calls"] += res["calls"]
        totals["compared"] += res["compared"]
        for r in res["records"]:
            recs.append(r)
    # the same programs under numba.njit (a sample: compilation dominates), compared with the interpreter
    from . import numbax
    nprog = 32 if tier == "quick" else 240
    step = max(1, len(progs) // nprog)
    nres = numbax.replay([], progs[common.seed() % step::step][:nprog], tier="quick", seed=common.seed(), only_programs=True)
    for r in nres["records"]:
        r["tag"] = "numba-program"
        recs.append(r)
    totals["calls"] += nres["calls"]
    totals["compared"] += nres["compiled"]
    run = run_cases(t, groups=casegroups)
    crecs = flatten(run, lambda r: r["case"]["op"] in ops and r["kind"] in ("C01", "C02", "error", "range"))
    # the one-call disagreements that are C01's recorded findings are not law violations
    for r in crecs:
        r["tag"] = "case"
    # ... and on the array backends (NumPy / Awkward layouts, method, operator and ufunc spellings): every element must be
    # the object backend's value, whose laws were just decided
    from . import c03x

    ares = c03x.replay([c for c in run["cases"] if c["op"] in ops], full=(tier == "thorough"))
    for r in ares["records"]:
        recs.append(r)
    totals["calls"] += ares["calls"]
    totals["compared"] += ares["elements"]
    # ... and compiled with numba.njit (its overloads re-implement lookup, argument order and wrapping per operation)
    jres = numbax.replay([c for c in run["cases"] if c["op"] in ops], [], tier="quick" if tier == "quick" else "full",
                         seed=common.seed() + 2, only_jobs=True)
    for r in jres["records"]:
        recs.append(r)
    totals["calls"] += jres["calls"]
    totals["compared"] += jres["compiled"]
    ncases = len([c for c in run["cases"] if c["op"] in ops])
    ccalls = sum(m["calls"] for m in run["modes"].values())
    v = common.Verdicts(prop)
    v.extend(recs + crecs)
    nviol, nknown = v.finish()
    if not progs or totals["compared"] < 2 or pstats["decided_asserts"] < 2:
        raise RuntimeError("vacuous run")
    names = sorted({p["name"] for p in progs})
    cov = {
        "states": pstats["distinct"] + run["stats"]["distinct"],
        "transitions": pstats["generated"] + run["stats"]["generated"],
        "traces_validated_against_impl": len(progs) * variants * 2 + ncases,
        "samples": [{"name": p["name"], "code": p["code"], "asserts": p["asserts"]} for p in progs[:: max(1, len(progs) // 2)][:2]],
        "law_programs": len(progs), "law_names": names,
        "law_assertions": pstats["asserts"], "law_assertions_decided_exactly_by_TLC": pstats["decided_asserts"],
        "signature_variants_per_program": variants, "programs_also_compiled_with_numba": nres["compiled"], "one_call_jobs_compiled_with_numba": jres["jobs"],
        "implementation_calls": totals["calls"] + ccalls,
        "comparisons": totals["compared"] + sum(m["compared"] for m in run["modes"].values()),
        "one_call_cases": ncases, "array_backend_calls": ares["calls"], "array_elements_compared": ares["elements"],
        "evaluations": totals["calls"] + ccalls,
        "distinct_nontrivial": len(progs) + ncases,
        "rule": ("programs = finished behaviours of spec/Laws.tla (straight-line sequences of public calls ending in law assertions) "
                 "enumerated exhaustively by TLC, which checks the invariant LawHolds on the specification's own definitions; each "
                 "program is replayed into the real code (mp 60-digit and float64) with operands stored in varying coordinate systems; "
                 "after each step the code's register is compared with the specification's, and each law is evaluated on the code's "
                 "own outputs; plus the one-call cases of Cases.tla for the same operations in every signature"),
        "exhaustive": False,
        "checker_cmd": "tlc2.TLC Laws.tla (INVARIANT LawHolds, Emit); harness/vverif/laws.py replay; tlapm spec/proofs/LawProofs.tla (thorough)",
        "trusted_base": TRUSTED + ["spec/Eval.tla, spec/Laws.tla"],
    }
    if tier == "thorough":
        nobl, proved, out = tlc.run_tlapm(PROOFS)
        cov["obligations"] = nobl
        cov["discharged"] = proved
        cov["proof_module"] = "spec/proofs/LawProofs.tla (TLAPS, backend Z3): the polynomial identities behind the laws, for all integers"
        if proved != nobl:
            raise RuntimeError("TLAPS could not discharge every obligation of LawProofs.tla:\n" + out[-1500:])
    return {"level": "model_checking", "coverage": cov, "violations": nviol, "known": nknown,
            "assumptions": ["lattice stands in for all real operands (TLAPS removes the bound on the specification side of the polynomial laws only)",
                            "mp tolerance 1e-40 * scale^2, float64 tolerance 1e-9 * scale^2"],
            "summary": f"{len(progs)} law programs x {variants} signature variants x 2 precisions, {ncases} one-call cases"}


def check_c09(tier):
    return check("C09", tier)


def check_c10(tier):
    return check("C10", tier)


def check_c11(tier):
    return check("C11", tier)


def replay_file(prop, path):
    with open(path) as f:
        d = json.load(f)
    bad = 0
    for r in d["records"]:
        if "prog" in r:
            p = dict(r["prog"])
            p.setdefault("regs", [["none"]] * 12)
            for mode in ("mp", "f64"):
                res = laws.replay([p], mode, 12, procs=1)
                bad += len([x for x in res["records"] if x["kind"] in ("law", "error")])
        elif "case" in r:
            for mode in ("mp", "f64"):
                res = algebra.replay([r["case"]], "full", mode, procs=1)
                bad += len(res["records"])
    print(f"replayed {len(d['records'])} records: {bad} disagreements")
    return 1 if bad else 0
