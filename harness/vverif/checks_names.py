"""C06 (constructors and name sets) and C14 (momentum synonyms)."""
from __future__ import annotations

import json
import os

from . import common, namesx, synx, tlc


def _gen(module, tag, cfg, key):
    cache = os.path.join(tlc.SCRATCH_ROOT, "vverif-cache", f"{key}-{tlc.spec_hash(key)}.json")
    os.makedirs(os.path.dirname(cache), exist_ok=True)
    if os.path.exists(cache):
        try:
            with open(cache) as f:
                d = json.load(f)
            return d["cases"], d["stats"]
        except Exception:
            pass
    r = tlc.run_tlc(module, cfg, workers=8, xmx="4g")
    cases = tlc.parse_cases(r["lines"], tag)
    if len(cases) != r["distinct"]:
        raise tlc.TLCError(f"{module}: {len(cases)} cases parsed, {r['distinct']} distinct states")
    stats = {"generated": r["generated"], "distinct": r["distinct"], "wall_s": r["wall_s"]}
    tmp = cache + f".{os.getpid()}.tmp"
    with open(tmp, "w") as f:
        json.dump({"cases": cases, "stats": stats}, f)
    os.replace(tmp, cache)
    return cases, stats


def gen_names():
    cfg = ("SPECIFICATION Spec\nINVARIANT SizeMatches\nINVARIANT SynonymInvariant\nINVARIANT TemporalNeedsLongitudinal\n"
           "INVARIANT Emit\nCHECK_DEADLOCK FALSE\n")
    return _gen("Names", "@@NAMES ", cfg, "names")


def gen_syn():
    cfg = "SPECIFICATION Spec\nINVARIANT TableOK\nINVARIANT Emit\nCHECK_DEADLOCK FALSE\n"
    return _gen("Synonyms", "@@SYN ", cfg, "synonyms")


def check_c06(tier):
    cases, stats = gen_names()
    res = namesx.replay(cases)
    v = common.Verdicts("C06")
    v.extend(res["records"])
    nviol, nknown = v.finish()
    accepted = [c for c in cases if c["cls"]["ok"] == "T"]
    if len(cases) != 16664 or len(accepted) < 100 or res["calls"] < 100000:
        raise RuntimeError(f"vacuous or incomplete run: {len(cases)} name sets, {len(accepted)} accepted")
    cov = {"states": stats["distinct"], "transitions": stats["generated"], "traces_validated_against_impl": len(cases),
           "samples": [accepted[0], cases[len(cases) // 3], cases[-1]],
           "name_sets": len(cases), "documented_sets": len(accepted), "implementation_calls": res["calls"],
           "value_type_calls": res["valuetype_calls"], "constructors": ["vector.obj", "VectorObject2D/3D/4D", "MomentumObject2D/3D/4D",
                                                                        "vector.array", "vector.zip", "vector.Array"],
           "evaluations": res["calls"], "distinct_nontrivial": len(cases),
           "rule": ("states of spec/Names.tla = every subset of at most 5 of the 19 recognised names, enumerated exhaustively by TLC with "
                    "Classify() and its invariants; each set is passed, with pairwise distinct values, to every constructor: object "
                    "constructors must accept exactly the documented sets and store values verbatim, array constructors must build a "
                    "valid subset or nothing; plus the value-type clause on 7 documented sets x 11 value types x every position"),
           "exhaustive": True, "checker_cmd": "tlc2.TLC Names.tla; harness/vverif/namesx.py",
           "trusted_base": ["TLC 1.8", "spec/Names.tla", "harness/vverif/namesx.py"]}
    return {"level": "model_checking", "coverage": cov, "violations": nviol, "known": nknown,
            "assumptions": ["names outside the 19 recognised ones are not enumerated (they are extra fields for array constructors)"],
            "summary": f"{len(cases)} name sets x 10 constructors, {res['calls']} constructor calls"}


def check_c14(tier):
    uses, stats = gen_syn()
    res = synx.replay(uses)
    # the numba extension spells the synonyms out once more (attribute overloads, the vector.obj factory): the momentum
    # attributes next to their geometric names and every spelling of the constructor, compiled against the interpreter
    from . import coords, numbax

    sigs = [s for n in (2, 3, 4) for s in coords.signatures(n)]
    nitems = [("momattr", s) for s in sigs] + [("ctor", s) for i, s in enumerate(sigs) if tier == "thorough" or (i + common.seed()) % 2 == 0 or len(s) == 3]
    nres = numbax.replay_items(nitems)
    v = common.Verdicts("C14")
    v.extend(res["records"])
    v.extend(nres["records"])
    nviol, nknown = v.finish()
    if len(uses) < 4000 or res["calls"] < 10000:
        raise RuntimeError("vacuous run")
    kinds = {}
    for u in uses:
        kinds[u["use"]] = kinds.get(u["use"], 0) + 1
    cov = {"states": stats["distinct"], "transitions": stats["generated"], "traces_validated_against_impl": len(uses),
           "samples": [uses[0], uses[len(uses) // 2], uses[-1]], "uses_by_kind": kinds, "implementation_calls": res["calls"],
           "evaluations": res["calls"], "distinct_nontrivial": len(uses),
           "rule": ("states of spec/Synonyms.tla = synonym table (getters, setters, 20 conversions, momentum/generic twins) x 20 coordinate "
                    "systems x backends (object, NumPy, Awkward array, Awkward record, SymPy), enumerated exhaustively; each use of a synonym "
                    "is executed next to the same use of the geometric name and the results must be bit-identical (values, class, system)"),
           "exhaustive": True, "checker_cmd": "tlc2.TLC Synonyms.tla; harness/vverif/synx.py",
           "trusted_base": ["TLC 1.8", "spec/Synonyms.tla", "harness/vverif/synx.py"]}
    return {"level": "model_checking", "coverage": cov, "violations": nviol, "known": nknown,
            "assumptions": ["two fixed operand points per system (synonymy is value independent: the comparison is bit-for-bit)"],
            "summary": f"{len(uses)} synonym uses, {res['calls']} API calls"}


def replay_file(prop, path):
    with open(path) as f:
        d = json.load(f)
    bad = 0
    for r in d["records"]:
        if prop == "C06" and "names" in r:
            flags = ["T" if n in r["names"] else "F" for n in namesx.NAMES]
            cases, _ = gen_names()
            sel = [c for c in cases if c["names"] == flags]
            recs, _ = namesx.run_names_case(sel[0]) if sel else ([], 0)
        elif prop == "C14":
            u = {"use": r["op"].split(":")[0], "syn": r["syn"], "geo": r["geo"], "sys": r["sig"][0], "backend": r["backend"]}
            recs, _ = synx.run_use(u)
        else:
            recs = []
        for x in recs:
            print(json.dumps(x, default=str)[:400])
        bad += len(recs)
    print(f"replayed: {bad} disagreements")
    return 1 if bad else 0


# ------------------------------------------------------------------ C12
def gen_cmp():
    cfg = ("SPECIFICATION Spec\nINVARIANT Reflexive\nINVARIANT Symmetric\nINVARIANT EqImpliesClose\nINVARIANT Monotone\n"
           "INVARIANT OneDifferenceIsUnequal\nINVARIANT Emit\nCHECK_DEADLOCK FALSE\n")
    return _gen("Compare", "@@CMP ", cfg, "compare")


def check_c12(tier):
    from . import cmpx

    cases, stats = gen_cmp()
    res = cmpx.replay(cases, full=(tier == "thorough"))
    v = common.Verdicts("C12")
    v.extend(res["records"])
    nviol, nknown = v.finish()
    if len(cases) < 1000 or res["calls"] < 50000:
        raise RuntimeError("vacuous run")
    by = {}
    for c in cases:
        by[c["ndiff"]] = by.get(c["ndiff"], 0) + 1
    cov = {"states": stats["distinct"], "transitions": stats["generated"], "traces_validated_against_impl": len(cases),
           "samples": [cases[0], cases[len(cases) // 2]], "pairs_by_number_of_differing_coordinates": by,
           "implementation_calls": res["calls"], "mixed_system_calls": res["mixed_calls"],
           "evaluations": res["calls"], "distinct_nontrivial": len(cases),
           "rule": ("states of spec/Compare.tla = pairs of stored records (identical / one / several / all coordinates changed) x tolerance grid, "
                    "enumerated exhaustively with the invariants Reflexive, Symmetric, EqImpliesClose, Monotone, OneDifferenceIsUnequal; each pair "
                    "is executed in the coordinate systems of its dimension (quick: 3, thorough: all) on object, NumPy, Awkward array and Awkward "
                    "record operands through ==, !=, equal, not_equal, isclose, allclose, numpy.equal/not_equal/isclose/allclose, element by "
                    "element; plus, for every pairing of different coordinate systems, != = not ==, symmetry, == => isclose and monotonicity"),
           "exhaustive": tier == "thorough", "checker_cmd": "tlc2.TLC Compare.tla; harness/vverif/cmpx.py",
           "trusted_base": ["TLC 1.8", "spec/Compare.tla", "harness/vverif/cmpx.py"]}
    return {"level": "model_checking", "coverage": cov, "violations": nviol, "known": nknown,
            "assumptions": ["stored coordinates are dyadic rationals so that float64 comparisons and tolerance sums are exact",
                            "== and != on Awkward records are excluded here (they raise: recorded under C05)"],
            "summary": f"{len(cases)} comparison states, {res['calls']} API calls"}


# ------------------------------------------------------------------ C04
def gen_conv():
    cfg = ("SPECIFICATION Spec\nINVARIANT Shape\nINVARIANT IdentityKeeps\nINVARIANT DimChangesNeverCompute\n"
           "INVARIANT Emit\nCHECK_DEADLOCK FALSE\n")
    return _gen("Convert", "@@CONV ", cfg, "convert")


def check_c04(tier):
    from . import convx

    cases, stats = gen_conv()
    res = convx.replay(cases)
    # the numba extension has its own conversion overloads: every to_<system> / to_VectorND compiled for each source
    # system (quick: alternating flavors), against the interpreter
    from . import coords, numbax

    sigs = [s for n in (2, 3, 4) for s in coords.signatures(n)]
    nitems = [("conv", s, fl) for i, s in enumerate(sigs) for fl in (("generic", "momentum") if tier == "thorough" else (("momentum",) if (i + common.seed()) % 2 else ("generic",)))]
    nres = numbax.replay_items(nitems)
    v = common.Verdicts("C04")
    v.extend(res["records"])
    v.extend(nres["records"])
    nviol, nknown = v.finish()
    if len(cases) < 2000 or res["calls"] < 20000:
        raise RuntimeError("vacuous run")
    kinds = {}
    for c in cases:
        kinds[c["kind"]] = kinds.get(c["kind"], 0) + 1
    cov = {"states": stats["distinct"], "transitions": stats["generated"], "traces_validated_against_impl": len(cases),
           "samples": [cases[0], cases[len(cases) // 2], cases[-1]], "states_by_kind": kinds, "implementation_calls": res["calls"] + nres["calls"], "numba_compiled_conversion_sources": len(nitems),
           "backends": ["object (60-digit)", "object (float64)", "NumPy (float64, float32, int64)", "Awkward array", "Awkward record", "numba (compiled, against the interpreter)"], "flavors": ["generic", "momentum"],
           "evaluations": res["calls"], "distinct_nontrivial": len(cases),
           "rule": ("states of spec/Convert.tla = 20 source systems x 20 targets x {geometric, momentum} spelling x keyword choices for to_<system>; "
                    "20 sources x {to_VectorND, to_ND} x 3 dimensions x every keyword spelling; like; two-keywords-of-one-group TypeError cases - "
                    "enumerated exhaustively with the invariants Shape, IdentityKeeps, DimChangesNeverCompute; each state is executed on five "
                    "backends x two flavors: kept coordinates must be bit-identical, imputed ones exactly the keyword value or zero in the required "
                    "coordinate type, computed groups must denote the same geometric part (1e-40 at 60 digits, 1e-9 in float64) and convert back"),
           "exhaustive": True, "checker_cmd": "tlc2.TLC Convert.tla; harness/vverif/convx.py",
           "trusted_base": ["TLC 1.8", "spec/Convert.tla", "harness/vverif/convx.py", "harness/vverif/coords.py"]}
    return {"level": "model_checking", "coverage": cov, "violations": nviol, "known": nknown,
            "assumptions": ["one well-conditioned source point per state (two elements for arrays): the structure of conversions does not depend on values; value-level agreement over the lattice is C01"],
            "summary": f"{len(cases)} conversion states, {res['calls']} API calls"}
