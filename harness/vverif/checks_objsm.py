"""C15: in-place updates of object vectors match their functional equivalents."""
from __future__ import annotations

import json
import os

from . import common, objsm, tlc

PROPS = ["ReadsBack", "PartnerPreserved", "OtherGroupsUntouched", "InPlaceKeepsSystem", "InPlaceIsFunctional", "RaiseLeavesUnchanged"]


def cfg(maxlen, seeds):
    return ("SPECIFICATION Spec\nCONSTANTS\n  MaxLen = %d\n  Seeds = \"%s\"\nINVARIANT TypeOK\nINVARIANT Emit\n" % (maxlen, seeds)
            + "".join(f"PROPERTY {p}\n" for p in PROPS) + "CHECK_DEADLOCK FALSE\n")


def gen_histories(maxlen, seeds, simulate=None, seed=0):
    key = tlc.spec_hash("objsm", maxlen, seeds, simulate, seed)
    cache = os.path.join(tlc.SCRATCH_ROOT, "vverif-cache", f"objsm-{key}.json")
    os.makedirs(os.path.dirname(cache), exist_ok=True)
    if os.path.exists(cache):
        try:
            with open(cache) as f:
                d = json.load(f)
            return d["hist"], d["stats"]
        except Exception:
            pass
    extra = []
    if simulate:
        extra = ["-depth", str(maxlen + 1), "-seed", str(seed)]
    r = tlc.run_tlc("ObjectSM", cfg(maxlen, seeds), workers=16 if not simulate else 1, xmx="8g",
                    simulate=simulate, extra=extra, timeout=3000)
    hist = tlc.parse_cases(r["lines"], "@@HIST ")
    if not hist:
        raise tlc.TLCError("ObjectSM: no history printed")
    stats = {"generated": r["generated"], "distinct": r["distinct"], "wall_s": r["wall_s"]}
    tmp = cache + f".{os.getpid()}.tmp"
    with open(tmp, "w") as f:
        json.dump({"hist": hist, "stats": stats}, f)
    os.replace(tmp, cache)
    return hist, stats


def check_c15(tier):
    seed = common.seed()
    if tier == "quick":
        plans = [(2, "quick", None)]
        sim = (6, "quick", "num=400")
        ntr, ltr = 400, 10
    else:
        plans = [(2, "full", None), (3, "quick", None)]
        sim = (10, "full", "num=4000")
        ntr, ltr = 5000, 12
    recs = []
    states = transitions = 0
    nhist = nsteps = calls = 0
    samples = []
    for maxlen, seeds, _ in plans:
        hist, st = gen_histories(maxlen, seeds)
        states += st["distinct"]
        transitions += st["generated"]
        if maxlen >= 3:
            # TLC model-checks all of them; every other history (by seed parity) is replayed into the code, to keep the
            # thorough tier within the hour
            hist = hist[seed % 2::2]
        for mode in ("mp", "f64"):
            res = objsm.replay(hist, mode, variants=1)
            recs += res["records"]
            calls += res["calls"]
        nhist += len(hist)
        nsteps += sum(len(h["steps"]) for h in hist)
        samples.append({"init": hist[len(hist) // 2]["init"], "steps": [{k: s[k] for k in ("kind", "name", "arg", "raised")} for s in hist[len(hist) // 2]["steps"]]})
    shist, sst = gen_histories(sim[0], sim[1], simulate=sim[2], seed=seed)
    # simulation prints one history per behaviour; duplicates are possible
    uniq = {json.dumps(h, sort_keys=True): h for h in shist}
    shist = list(uniq.values())
    for mode in ("mp", "f64"):
        res = objsm.replay(shist, mode, variants=2)
        recs += res["records"]
        calls += res["calls"]
    nhist += len(shist)
    nsteps += sum(len(h["steps"]) for h in shist)
    # code -> spec
    events = objsm.record_traces(seed + 1, ntr, ltr)
    verdicts, summary, tst = objsm.validate_traces(events)
    for vd in verdicts:
        e = events[vd["line"] - 1]
        recs.append({"kind": "trace-rejected:" + vd["verdict"], "op": e["kind"] + (":" + e["name"] if e["name"] else ""),
                     "tag": "objsm-trace", "event": e})
    if summary["events"] != len(events) or summary["accepted"] + len(verdicts) != len(events):
        raise RuntimeError("trace validation bookkeeping mismatch")
    # the Set action on symbolic vectors (the SymPy classes have their own setters)
    srecs, scalls = objsm.sympy_setters()
    recs += srecs
    calls += scalls
    v = common.Verdicts("C15")
    v.extend(recs)
    nviol, nknown = v.finish()
    if nhist < 100 or len(events) < 100:
        raise RuntimeError("vacuous run")
    cov = {"states": states + sst["distinct"] + tst["distinct"], "transitions": transitions + sst["generated"] + tst["generated"],
           "traces_validated_against_impl": nhist + len({e["tid"] for e in events}),
           "samples": samples + [events[0]],
           "symbolic_setter_assignments": scalls, "histories_replayed": nhist, "history_steps": nsteps, "implementation_calls": calls,
           "simulated_histories": len(shist), "simulation_depth": sim[0],
           "recorded_trace_events": len(events), "recorded_trace_events_accepted_by_TLC": summary["accepted"],
           "tlc_properties": PROPS,
           "evaluations": calls + len(events), "distinct_nontrivial": nhist + len(events),
           "rule": ("histories = behaviours of spec/ObjectSM.tla (setters of every coordinate of every group, += -= *= /=, operations that must "
                    "raise) explored exhaustively by TLC to the stated length from every coordinate system and flavor, with the six safety "
                    "properties checked as TLA+ action properties, plus random deeper behaviours (-simulate); each history is replayed step by "
                    "step into real object vectors (60-digit and float64, momentum spellings chosen among the synonyms, in-place operands in "
                    "varying systems/flavors) and the object compared with the specification's state after every step; conversely random "
                    "sessions on real objects are recorded and every event validated by TLC against ObjectSMTrace.tla"),
           "exhaustive": False, "checker_cmd": "tlc2.TLC ObjectSM.tla (PROPERTY x6); tlc2.TLC -simulate; tlc2.TLC ObjectSMTrace.tla with TRACE_FILE",
           "trusted_base": ["TLC 1.8", "spec/ObjectSM.tla, ObjectSMTrace.tla, Algebra.tla, Num.tla", "harness/vverif/objsm.py (replay, recorder, projection with exact snapping)",
                            "harness/vverif/mplib.py"]}
    return {"level": "model_checking", "coverage": cov, "violations": nviol, "known": nknown,
            "assumptions": ["TLC follows histories exactly only while stored values stay rational; otherwise states are compared numerically (replay) or structurally (traces)",
                            "object backend only (the property is about object vectors); SymPy setters are covered structurally by C14"],
            "summary": f"{nhist} histories ({nsteps} steps) replayed x2 precisions, {len(events)} recorded events validated by TLC"}


def replay_file(prop, path):
    from . import coords, mplib
    import numpy

    with open(path) as f:
        d = json.load(f)
    bad = 0
    for r in d["records"]:
        if "history" in r:
            hs, _ = gen_histories(2, "quick")
            # re-run the specific history if it is among the generated ones, otherwise report as-is
            for h in hs:
                if h["init"] == r["history"]["init"] and [s["kind"] + s["name"] for s in h["steps"]] == [s["kind"] + s["name"] for s in r["history"]["steps"]] \
                        and [s["arg"] for s in h["steps"]] == [s["arg"] for s in r["history"]["steps"]]:
                    for mode in ("mp", "f64"):
                        res = objsm.replay([h], mode, procs=1)
                        bad += len(res["records"])
                    break
    print(f"replayed: {bad} disagreements")
    return 1 if bad else 0
