"""C16 (operations never modify their operands) and C20 (no trace in global state; thread determinism)."""
from __future__ import annotations

import json

from . import checks_types, common, session, tlc

GLOB_CFG = """SPECIFICATION Spec
CONSTANTS
  Threads = {%s}
  SharedErrState = %s
  PriorErr = "%s"
  MaxCalls = %d
INVARIANT GlobalsRestored
INVARIANT RegisterIdempotent
INVARIANT ResultsEqualSequential
PROPERTY OnlyRegisterChangesRegistry
CHECK_DEADLOCK FALSE
"""


def _records(events, verdicts, keep):
    recs = []
    for vd in verdicts:
        e = events[vd["line"] - 1]
        if keep(vd["verdict"]):
            recs.append({"kind": vd["verdict"], "op": e["kind"], "tag": "session", "backend": e["backend"],
                         "prior": e.get("prior"), "registered_mode": e.get("registered_mode"), "thread": e["thread"],
                         "event": {k: e[k] for k in ("kind", "backend", "raised", "pre", "post", "gpre", "gpost")}})
    return recs


def check_c16(tier):
    tcs, tstats = checks_types.gen_type_cases()
    limit = 2500 if tier == "quick" else None
    events = session.run_sessions(tcs, limit, procs=8)
    verdicts, summary, st = session.validate(events)
    recs = _records(events, verdicts, lambda v: v == "operand-modified")
    v = common.Verdicts("C16")
    v.extend(recs)
    nviol, nknown = v.finish()
    kinds = sorted({e["kind"] for e in events})
    if len(events) < 1000 or summary["events"] != len(events):
        raise RuntimeError("vacuous run")
    cov = {"states": st["distinct"], "transitions": st["generated"],
           "traces_validated_against_impl": len({(e["tid"], e["thread"]) for e in events}),
           "samples": [{k: events[j][k] for k in ("kind", "backend", "raised", "pre", "post")} for j in (0, len(events) // 2)],
           "events": len(events), "events_accepted_by_TLC": summary["accepted"], "distinct_call_kinds": len(kinds),
           "call_kinds": kinds, "evaluations": len(events), "distinct_nontrivial": len(events),
           "rule": ("every executed state of spec/Types.tla (all public methods/operators x backend pairings x flavors x dimensions, one sampled "
                    "coordinate-system pairing each) plus reductions, indexing, copying, pickling, printing, conversions and constructors fed the "
                    "caller's own arrays/dtypes is run under four prior NumPy/warnings settings in unregistered and registered Awkward mode; bit-level "
                    "digests of every operand are taken before and after each call and TLC validates every event against SessionTrace.tla "
                    "(UNCHANGED operands for every non-assignment call)"),
           "exhaustive": False, "checker_cmd": "tlc2.TLC SessionTrace.tla with TRACE_FILE", 
           "trusted_base": ["TLC 1.8", "spec/SessionTrace.tla", "harness/vverif/session.py (digests: raw bytes, dtype descr/names, shape, class, ak.to_buffers)"]}
    return {"level": "model_checking", "coverage": cov, "violations": nviol, "known": nknown,
            "assumptions": ["operand values are fixed well-conditioned points (frame conditions do not depend on values); C15 covers the explicit in-place operators"],
            "summary": f"{len(events)} recorded calls validated by TLC, {len(kinds)} call kinds"}


def check_c20(tier):
    # (a) the design: interleavings of Enter/Exit/Register, positive and negative configuration
    mc = []
    configs = [("1, 2", "raise", 3), ("1, 2, 3", "warn", 2)] if tier == "quick" else [("1, 2", "raise", 4), ("1, 2, 3", "warn", 3), ("1, 2, 3, 4", "ignore", 2)]
    states = transitions = 0
    for th, prior, calls in configs:
        r = tlc.run_tlc("Globals", GLOB_CFG % (th, "FALSE", prior, calls), workers=8, xmx="6g")
        states += r["distinct"]
        transitions += r["generated"]
        mc.append({"threads": th, "prior": prior, "max_calls": calls, "distinct": r["distinct"]})
    neg = tlc.run_tlc("Globals", GLOB_CFG % ("1, 2", "TRUE", "raise", 2), workers=1, xmx="2g", allow_violation=True)
    if not neg.get("violated"):
        raise RuntimeError("negative configuration (process-global error state) did not violate GlobalsRestored: the invariant is vacuous")
    # (b) recorded sessions under every prior, unregistered and registered
    tcs, _ = checks_types.gen_type_cases()
    limit = 1500 if tier == "quick" else 6000
    events = session.run_sessions(tcs, limit, procs=8, covering=(tier != "quick"))     # (the covering pairings are C16's subject)
    verdicts, summary, st = session.validate(events)
    recs = _records(events, verdicts, lambda v: v != "operand-modified")
    # (c) threads
    tlimit, nthreads, reps = (120, 8, 1) if tier == "quick" else (500, 16, 3)
    tevents, mismatches, nitems = session.thread_run(tcs, tlimit, nthreads, reps)
    tverdicts, tsummary, tst = session.validate(tevents)
    recs += _records(tevents, tverdicts, lambda v: v != "operand-modified")
    hmism, hitems, hcalls = session.thread_hammer(tcs, nthreads, 2 if tier == "quick" else 6, with_poisoned=(tier != "quick"))
    omism, oitems = session.order_run(tcs)
    for m in mismatches + hmism + omism:
        recs.append({"kind": "thread-result-differs" if "what" not in m else "process-state-leaked-under-threads", "op": m.get("call", "?"),
                     "tag": "threads", "backend": m.get("backend"), "detail": m})
    v = common.Verdicts("C20")
    v.extend(recs)
    nviol, nknown = v.finish()
    raised = sum(1 for e in events if e["raised"] == "T")
    if len(events) < 1000 or raised < 10 or len(tevents) < 100:
        raise RuntimeError("vacuous run")
    cov = {"states": states + st["distinct"] + tst["distinct"], "transitions": transitions + st["generated"] + tst["generated"],
           "traces_validated_against_impl": len({(e["tid"], e["thread"]) for e in events}) + len({(e["tid"], e["thread"]) for e in tevents}),
           "samples": [{k: events[j][k] for k in ("kind", "backend", "raised", "prior", "gpre", "gpost")} for j in (0, len(events) // 2)],
           "model_checking_runs": mc, "negative_configuration": "SharedErrState = TRUE violates GlobalsRestored (as it must)",
           "session_events": len(events), "session_events_that_raised": raised, "priors": [p[0] for p in session.PRIORS],
           "modes": ["unregistered", "registered (register_awkward called twice first)"],
           "thread_events": len(tevents), "threads": nthreads, "thread_call_list": nitems, "thread_repetitions": reps, "order_independence_items": oitems, "simultaneous_call_items": hitems, "simultaneous_calls": hcalls,
           "thread_result_mismatches": len(mismatches),
           "evaluations": len(events) + len(tevents), "distinct_nontrivial": len(events) + len(tevents),
           "rule": ("(a) TLC explores every interleaving of Enter/Exit/Register of spec/Globals.tla for 2-4 threads under each prior error mode "
                    "(invariants GlobalsRestored, RegisterIdempotent, ResultsEqualSequential, property OnlyRegisterChangesRegistry) and the negative "
                    "configuration with a process-global error state must fail; (b) every call of the catalogue is run in fresh processes under four "
                    "prior NumPy/warnings/print-option settings, unregistered and registered, the process-state fingerprint taken before and after "
                    "each call (returning or raising) and validated by TLC against SessionTrace.tla together with per-thread continuity; (c) the same "
                    "call list is evaluated sequentially and concurrently on N threads (barrier start, 1 microsecond switch interval): results must be "
                    "bit-identical and each thread's trace is validated"),
           "exhaustive": False, "checker_cmd": "tlc2.TLC Globals.tla; tlc2.TLC SessionTrace.tla with TRACE_FILE",
           "trusted_base": ["TLC 1.8", "spec/Globals.tla, SessionTrace.tla", "harness/vverif/session.py (fingerprint of numpy.geterr, warnings.filters, print options, ak.behavior keys, vector._awkward_registered)"]}
    return {"level": "model_checking", "coverage": cov, "violations": nviol, "known": nknown,
            "assumptions": ["real thread schedules are only sampled (the specification enumerates them)", "numba registration is exercised by C07, not here"],
            "summary": f"{len(mc)} MC configurations (+negative), {len(events)} session events, {len(tevents)} thread events on {nthreads} threads"}


def replay_file(prop, path):
    with open(path) as f:
        d = json.load(f)
    for r in d["records"][:5]:
        print(json.dumps(r, default=str)[:600])
    print("session records are replayed by re-running the check (the catalogue is deterministic)")
    return 0
