"""C05: result backend, flavor, dimension and coordinate system follow the stated rules."""
from __future__ import annotations

import json
import os

from . import common, tlc, typesx


def gen_type_cases():
    key = tlc.spec_hash("types")
    cache = os.path.join(tlc.SCRATCH_ROOT, "vverif-cache", f"types-{key}.json")
    os.makedirs(os.path.dirname(cache), exist_ok=True)
    if os.path.exists(cache):
        try:
            with open(cache) as f:
                d = json.load(f)
            return d["cases"], d["stats"]
        except Exception:
            pass
    cfg = ("SPECIFICATION Spec\nINVARIANT Monotone\nINVARIANT Symmetric\nINVARIANT SameDimRejects\n"
           "INVARIANT Emit\nCHECK_DEADLOCK FALSE\n")
    r = tlc.run_tlc("Types", cfg, workers=8, xmx="4g")
    cases = tlc.parse_cases(r["lines"], "@@TYPE ")
    if len(cases) != r["distinct"]:
        raise tlc.TLCError(f"Types: {len(cases)} cases parsed, {r['distinct']} distinct states")
    stats = {"generated": r["generated"], "distinct": r["distinct"], "wall_s": r["wall_s"]}
    tmp = cache + f".{os.getpid()}.tmp"
    with open(tmp, "w") as f:
        json.dump({"cases": cases, "stats": stats}, f)
    os.replace(tmp, cache)
    return cases, stats


def check_c05(tier):
    cases, stats = gen_type_cases()
    res = typesx.replay(cases, thorough=(tier == "thorough"))
    # the same lattice restricted to Awkward operands, after register_awkward() (results then carry no
    # behavior of their own and rely on the global registry)
    akcases = [c for c in cases if "ak" in c["a"][0] or "ak" in c["b"][0]]
    if tier == "quick":
        akcases = akcases[::4]
    res_reg = typesx.replay(akcases, thorough=False, registered=True)
    for r in res_reg["records"]:
        r["registered_mode"] = "T"
    res["records"] += res_reg["records"]
    res["calls"] += res_reg["calls"]
    v = common.Verdicts("C05")
    v.extend(res["records"])
    nviol, nknown = v.finish()
    executed = [c for c in cases if c["req"]["out"] != "NoSuchMethod"]
    if res["calls"] < 1000 or res["table_size"] < 100:
        raise RuntimeError("vacuous run")
    outs = {}
    for c in executed:
        outs[c["req"]["out"]] = outs.get(c["req"]["out"], 0) + 1
    cov = {
        "states": stats["distinct"], "transitions": stats["generated"],
        "traces_validated_against_impl": len(executed),
        "samples": [executed[0], executed[len(executed) // 2], executed[-1]],
        "required_outcomes": outs,
        "implementation_calls": res["calls"], "calls_in_registered_awkward_mode": res_reg["calls"],
        "learned_result_system_table_entries": res["table_size"],
        "evaluations": res["calls"], "distinct_nontrivial": len(executed),
        "rule": ("states of spec/Types.tla = every public method x every operand descriptor (backend in object/NumPy/Awkward array/Awkward "
                 "record x flavor x dimension), enumerated exhaustively by TLC together with the invariants Monotone, Symmetric, SameDimRejects; "
                 "each state is executed on small containers (quick: every coordinate-system pairing for generic object operands, two "
                 "sampled pairings otherwise; thorough: every pairing for every descriptor) and the result's container, flavor, dimension are "
                 "compared with Required(); the result coordinate system must be a function of (method, operand systems) across all descriptors"),
        "exhaustive": tier == "thorough",
        "checker_cmd": "tlc2.TLC Types.tla; harness/vverif/typesx.py",
        "trusted_base": ["TLC 1.8", "spec/Types.tla", "harness/vverif/typesx.py (container construction and description)"],
    }
    return {"level": "model_checking", "coverage": cov, "violations": nviol, "known": nknown,
            "assumptions": ["operand values are two fixed well-conditioned forward-timelike points: the rules do not depend on values",
                            "Awkward behaviors are used in unregistered mode (vector.Array); register_awkward() mode is covered by C20"],
            "summary": f"{len(executed)} type states, {res['calls']} API calls, {res['table_size']} learned system-table entries"}


def replay_file(prop, path):
    with open(path) as f:
        d = json.load(f)
    bad = 0
    for r in d["records"]:
        if "a" in r and "op" in r:
            cases, _ = gen_type_cases()
            sel = [c for c in cases if c["m"] == r["op"] and c["a"] == r["a"] and c["b"] == r["b"]]
            res = typesx.replay(sel, thorough=True, procs=1)
            for x in res["records"]:
                print(json.dumps(x, default=str)[:400])
            bad += len(res["records"])
    print(f"replayed: {bad} disagreements")
    return 1 if bad else 0
