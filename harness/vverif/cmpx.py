"""Execution of the comparison cases of Compare.tla (C12) on every backend, in every
coordinate system of the dimension, through methods, operators and NumPy functions."""
from __future__ import annotations

import itertools
import json
import warnings

import numpy

from . import coords
from .algebra import rat

MOM = coords.MOM_NAMES


def fl(t):
    return float(rat(t))


def build(backend, flavor, sig, rows):
    """rows: list of stored tuples (floats); object/record backends use rows[0]."""
    import awkward as ak
    import vector

    names = coords.field_names(sig)
    if flavor == "momentum":
        names = [MOM[n] for n in names]
    if backend == "obj":
        return vector.obj(**dict(zip(names, rows[0])))
    if backend == "np":
        return vector.array({n: numpy.array([r[i] for r in rows]) for i, n in enumerate(names)})
    arr = vector.Array([dict(zip(names, r)) for r in rows])
    return arr if backend == "akarr" else arr[0]


def tolist(x):
    import awkward as ak

    if isinstance(x, (ak.Array,)):
        return [bool(v) for v in ak.to_list(x)]
    a = numpy.asarray(x)
    return [bool(v) for v in a.ravel()]


def forms(backend, A, B, rtol, atol):
    """name -> (kind, thunk) for every way of asking the comparison on this backend."""
    f = {
        "eq:operator": ("eq", lambda: A == B), "eq:method": ("eq", lambda: A.equal(B)),
        "ne:operator": ("ne", lambda: A != B), "ne:method": ("ne", lambda: A.not_equal(B)),
        "close:method": ("close", lambda: A.isclose(B, rtol=rtol, atol=atol)),
    }
    if backend in ("obj", "np"):
        f["eq:numpy.equal"] = ("eq", lambda: numpy.equal(A, B))
        f["ne:numpy.not_equal"] = ("ne", lambda: numpy.not_equal(A, B))
    if backend == "np":
        f["close:numpy.isclose"] = ("close", lambda: numpy.isclose(A, B, rtol=rtol, atol=atol))
        f["allclose:numpy.allclose"] = ("allclose", lambda: numpy.allclose(A, B, rtol=rtol, atol=atol))
        f["allclose:method"] = ("allclose", lambda: A.allclose(B, rtol=rtol, atol=atol))
    if backend == "akarr":
        f["allclose:method"] = ("allclose", lambda: A.allclose(B, rtol=rtol, atol=atol))
    return f


KNOWN_RECORD_OPERATOR = {"eq:operator", "ne:operator"}   # Awkward records: C05 finding, not judged again here


def run_case(c, full):
    recs, calls = [], 0
    a = [fl(t) for t in c["a"]]
    b = [fl(t) for t in c["b"]]
    rtol, atol = fl(c["rtol"]), fl(c["atol"])
    n = len(a)
    want = {"eq": c["eq"] == "T", "ne": c["ne"] == "T", "close": c["close"] == "T"}
    sigs = coords.signatures(n)
    if not full:
        h = hash(json.dumps([c["a"], c["b"]])) % len(sigs)
        sigs = [sigs[0], sigs[h], sigs[-1]]
    for sig in sigs:
        for backend in ("obj", "np", "akarr", "akrec", "np-gm", "np-mg", "obj+np", "np+obj"):
            flavor = "momentum" if (len(sig) + len(backend)) % 2 else "generic"
            # arrays: element 0 is the pair under test, element 1 an identical pair
            if backend in ("obj", "np", "akarr", "akrec"):
                A = build(backend, flavor, sig, [a, a])
                B = build(backend, "generic" if backend != "np" else flavor, sig, [b, a])
                fbackend = backend
            else:
                # mixed flavors / mixed backends: which operand's hook NumPy consults must not matter
                fa, fb = {"np-gm": ("generic", "momentum"), "np-mg": ("momentum", "generic"), "obj+np": (flavor, "momentum"),
                          "np+obj": ("generic", flavor)}[backend]
                A = build("obj" if backend == "obj+np" else "np", fa, sig, [a, a])
                B = build("obj" if backend == "np+obj" else "np", fb, sig, [b, a] if backend != "np+obj" else [b])
                fbackend = "np"
            for name, (kind, thunk) in forms(fbackend, A, B, rtol, atol).items():
                if backend == "obj+np" and name == "allclose:method":
                    continue      # object vectors have no allclose method
                if backend == "akrec" and name in KNOWN_RECORD_OPERATOR:
                    continue
                calls += 1
                base = {"op": name, "sig": [sig, sig], "backend": backend, "tag": "cmp", "case": c}
                try:
                    with warnings.catch_warnings(), numpy.errstate(all="ignore"):
                        warnings.simplefilter("ignore")
                        out = thunk()
                except Exception as ex:
                    recs.append(dict(base, kind="exception", error=f"{type(ex).__name__}: {ex}"[:200]))
                    continue
                if kind == "allclose":
                    if bool(out) != want["close"]:
                        recs.append(dict(base, kind="wrong-allclose", got=bool(out), want=want["close"]))
                    continue
                vals = tolist(out)
                exp = [want[kind]] + ([{"eq": True, "ne": False, "close": True}[kind]] if len(vals) == 2 else [])
                if backend == "np+obj":
                    exp = [want[kind]] * len(vals)
                if vals != exp:
                    recs.append(dict(base, kind="wrong-" + kind, got=vals, want=exp))
    return recs, calls


def mixed_system_coherence(args):
    full, part, nparts = args
    """!= is the negation of ==, == is symmetric, == implies isclose, isclose is monotone in the
    tolerances - for every pairing of coordinate systems (no expectation on == itself)."""
    import mpmath
    import vector

    recs, calls = [], 0
    pts = {2: [(3.0, 4.0), (3.0, 4.125), (-1.5, 2.0)],
           3: [(3.0, 4.0, 12.0), (3.0, 4.0, 12.5), (3.0, -4.0, 12.0), (1.0, 2.0, -2.0)],
           4: [(3.0, 4.0, 12.0, 85.0), (3.0, 4.0, 12.0, 85.5), (3.0, 4.25, 12.0, 85.0), (1.0, 2.0, 2.0, 7.0)]}
    tols = [0.0, 0.125, 0.5, 2.0]
    for n, plist in pts.items():
        sigs = coords.signatures(n)
        pairs = list(itertools.product(sigs, sigs))
        if not full:
            pairs = pairs[::3]
        pairs = pairs[part::nparts]
        for s1, s2 in pairs:
            for p, q in itertools.product(plist, plist):
                for backend in ("obj", "np", "akarr"):
                    A = build(backend, "generic", s1, [[float(x) for x in coords.store([mpmath.mpf(c) for c in p], s1)]] * 2)
                    B = build(backend, "momentum", s2, [[float(x) for x in coords.store([mpmath.mpf(c) for c in q], s2)]] * 2)
                    base = {"op": "mixed", "sig": [s1, s2], "backend": backend, "tag": "cmp-mixed", "points": [p, q]}
                    try:
                        with warnings.catch_warnings(), numpy.errstate(all="ignore"):
                            warnings.simplefilter("ignore")
                            eq, ne = tolist(A == B), tolist(A != B)
                            eq2 = tolist(B == A)
                            meq, mne = tolist(A.equal(B)), tolist(A.not_equal(B))
                            close = {(r, t): tolist(A.isclose(B, rtol=r, atol=t)) for r in tols for t in tols}
                        calls += 5 + len(close)
                    except Exception as ex:
                        recs.append(dict(base, kind="exception", error=f"{type(ex).__name__}: {ex}"[:200]))
                        continue
                    if ne != [not x for x in eq] or mne != [not x for x in meq]:
                        recs.append(dict(base, kind="ne-is-not-negation-of-eq", got={"eq": eq, "ne": ne, "equal": meq, "not_equal": mne}))
                    if eq != eq2:
                        recs.append(dict(base, kind="eq-not-symmetric", got={"ab": eq, "ba": eq2}))
                    if eq != meq:
                        recs.append(dict(base, kind="operator-differs-from-method", got={"==": eq, "equal": meq}))
                    if any(e and not cl for e, cl in zip(eq, close[(0.0, 0.0)])):
                        recs.append(dict(base, kind="eq-does-not-imply-isclose"))
                    for (r1, t1), (r2, t2) in itertools.product(close, close):
                        if r1 <= r2 and t1 <= t2 and any(x and not y for x, y in zip(close[(r1, t1)], close[(r2, t2)])):
                            recs.append(dict(base, kind="isclose-not-monotone", got={"tight": [r1, t1], "loose": [r2, t2]}))
                            break
    return recs, calls


def worker(args):
    chunk, full = args
    out = {"records": [], "calls": 0, "cases": 0}
    for c in chunk:
        try:
            r, n = run_case(c, full)
        except Exception as ex:
            from . import common as _c
            r, n = [_c.crash_record("comparison", ex, case=c)], 0
        out["records"] += r
        out["calls"] += n
        out["cases"] += 1
    return out


def replay(cases, full=False, procs=16):
    import multiprocessing as mp

    n = max(1, min(procs, len(cases)))
    chunks = [cases[i::n * 4] for i in range(n * 4)]
    chunks = [c for c in chunks if c]
    total = {"records": [], "calls": 0, "cases": 0}
    with mp.get_context("fork").Pool(n) as pool:
        for out in pool.imap_unordered(worker, [(c, full) for c in chunks]):
            total["records"] += out["records"]
            total["calls"] += out["calls"]
            total["cases"] += out["cases"]
    total["mixed_calls"] = 0
    with mp.get_context("fork").Pool(n) as pool:
        for r, c in pool.imap_unordered(mixed_system_coherence, [(full, k, n) for k in range(n)]):
            total["records"] += r
            total["calls"] += c
            total["mixed_calls"] += c
    return total
