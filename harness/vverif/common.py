"""Shared plumbing of the checks: verdict lines, replay files, known findings, evidence."""
from __future__ import annotations

import hashlib
import json
import os
import sys
import time

ROOT = os.path.dirname(os.path.dirname(os.path.dirname(os.path.abspath(__file__))))
EVIDENCE_DIR = os.environ.get("VERIF_EVIDENCE_DIR") or os.path.join(ROOT, "evidence")
REPLAY_DIR = os.path.join(os.environ["VERIF_EVIDENCE_DIR"], "replays") if os.environ.get("VERIF_EVIDENCE_DIR") else os.path.join(ROOT, "replays")
KNOWN = os.path.join(ROOT, "known_findings.json")


def seed():
    try:
        return int(os.environ.get("VERIF_SEED", "0"))
    except ValueError:
        return 0


def jdefault(o):
    try:
        import mpmath

        if isinstance(o, mpmath.mpf):
            return mpmath.nstr(o, 30)
    except Exception:
        pass
    if isinstance(o, (set, frozenset)):
        return sorted(o, key=str)
    if isinstance(o, tuple):
        return list(o)
    return str(o)


def load_known():
    with open(KNOWN) as f:
        return json.load(f)


def _sig_names(sig):
    out = []
    for part in sig or ():
        if part is None:
            continue
        if isinstance(part, (list, tuple)):
            out += _sig_names(part)
        else:
            out.append(part)
    return out


def finding_matches(finding, prop, rec):
    """Does the known-finding entry describe this violation record?"""
    props = finding["property"] if isinstance(finding["property"], list) else [finding["property"]]
    if prop not in props:
        return False
    m = finding.get("match", {})
    if "op" in m and rec.get("op") not in m["op"]:
        return False
    if "kind" in m and rec.get("kind") not in m["kind"]:
        return False
    if "strata" in m and not set(m["strata"]) <= set(rec.get("strata", [])):
        return False
    if "any_strata" in m and not (set(m["any_strata"]) & set(rec.get("strata", []))):
        return False
    if "sig_has" in m:
        names = _sig_names(rec.get("sig"))
        if not (set(m["sig_has"]) & set(names)):
            return False
    if "sig_lacks" in m:
        names = _sig_names(rec.get("sig"))
        if set(m["sig_lacks"]) & set(names):
            return False
    if "tag" in m and rec.get("tag") not in m["tag"]:
        return False
    if "error_has" in m and m["error_has"] not in str(rec.get("error", "")):
        return False
    if "where" in m:
        for k, v in m["where"].items():
            if rec.get(k) not in v:
                return False
    return True


class Verdicts:
    """Collects violation records for one property and turns them into verdict lines."""

    def __init__(self, prop):
        self.prop = prop
        self.records = []
        self.known = load_known()

    def add(self, rec):
        self.records.append(rec)

    def extend(self, recs):
        self.records.extend(recs)

    def finish(self):
        """Print KNOWN-FINDING / VIOLATION lines; return (n_violations, n_known)."""
        unknown, matched = [], {}
        for rec in self.records:
            hit = None
            for f in self.known.get("findings", []):
                if finding_matches(f, self.prop, rec):
                    hit = f
                    break
            if hit is None:
                unknown.append(rec)
            else:
                matched.setdefault(hit["id"], [hit, 0])
                matched[hit["id"]][1] += 1
        for fid, (f, n) in sorted(matched.items()):
            print(f"KNOWN-FINDING: property={self.prop} {fid}: {f['what']} ({n} observations)")
        if unknown:
            os.makedirs(REPLAY_DIR, exist_ok=True)
            # group by a coarse key so that one replay file per distinct failure class is written
            groups = {}
            for rec in unknown:
                key = json.dumps([rec.get("op"), rec.get("kind"), rec.get("tag")], default=jdefault)
                groups.setdefault(key, []).append(rec)
            for key, recs in list(groups.items())[:25]:
                h = hashlib.sha256((key + json.dumps(recs[0], default=jdefault, sort_keys=True)).encode()).hexdigest()[:12]
                path = os.path.join(REPLAY_DIR, f"{self.prop}-{h}.json")
                with open(path, "w") as f:
                    json.dump({"property": self.prop, "count": len(recs), "records": recs[:20]}, f,
                              indent=1, default=jdefault)
                print(f"VIOLATION property={self.prop} replay={path}")
                first = recs[0]
                brief = {k: first[k] for k in first if k not in ("case",)}
                print("  first of %d: %s" % (len(recs), json.dumps(brief, default=jdefault)[:600]))
        return len(unknown), sum(n for _, n in matched.values())


def write_evidence(prop, tier, level, coverage, wall_s, violations, assumptions):
    os.makedirs(EVIDENCE_DIR, exist_ok=True)
    ev = {"property_id": prop, "tier": tier, "seed": seed(), "level": level, "coverage": coverage,
          "assumptions": assumptions, "wall_s": round(wall_s, 3), "violations": int(violations)}
    path = os.path.join(EVIDENCE_DIR, f"{prop}.json")
    tmp = path + ".tmp"
    with open(tmp, "w") as f:
        json.dump(ev, f, indent=1, default=jdefault)
    os.replace(tmp, path)
    return path


class Timer:
    def __init__(self):
        self.t0 = time.time()

    def __call__(self):
        return time.time() - self.t0


def crash_record(op, ex, **extra):
    """A per-case function raised: on the unchanged tree none does, so the library returned something the harness could
    not interpret (a result inconsistent with its own class / system / fields) or raised where every case expects an
    answer.  Reported as a finding about that case instead of aborting the whole check."""
    import traceback

    tb = traceback.format_exc()
    return dict({"op": op, "kind": "case-aborted-by-exception", "tag": "crash", "error": f"{type(ex).__name__}: {ex}"[:300],
                 "traceback_tail": tb.strip().splitlines()[-6:]}, **extra)
