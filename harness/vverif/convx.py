"""Execution of the conversion states of Convert.tla (C04)."""
from __future__ import annotations

import json
import warnings

import mpmath
import numpy

from . import coords
from .algebra import close_num, MP_TOL, F64_TOL

mpf = mpmath.mpf
POINT = (mpf("1.1"), mpf("-2.2"), mpf("3.3"), mpf("10.5"))
POINT2 = (mpf("-0.7"), mpf("1.9"), mpf("-2.4"), mpf("8.25"))
KWVAL = {"lon": 0.3, "tmp": 7.1}      # not representable in float32 or as integers: a keyword value must not be cast to a neighbour's dtype
MOMSPELL = {"x": "px", "y": "py", "rho": "pt", "phi": "phi", "z": "pz", "theta": "theta", "eta": "eta", "t": "energy", "tau": "mass"}


def sig_of_sys(s):
    return tuple(x for x in s if x != "none")


def method_name(tgt, spelling):
    names = coords.field_names(sig_of_sys(tgt))
    if spelling == "momentum":
        names = [MOMSPELL[n] for n in names]
    return "to_" + "".join(names)


def build(backend, flavor, sig):
    import awkward as ak
    import vector
    from . import mplib

    names = coords.field_names(sig)
    if flavor == "momentum":
        names = [coords.MOM_NAMES[n] for n in names]
    st1 = coords.store(list(POINT[: len(sig) + 1]), sig)
    st2 = coords.store(list(POINT2[: len(sig) + 1]), sig)
    if backend == "mp":
        return coords.build(mplib.mp_classes(), flavor, list(POINT[: len(sig) + 1]), sig, mplib.M)
    if backend == "obj":
        return vector.obj(**{n: float(v) for n, v in zip(names, st1)})
    if backend == "np":
        return vector.array({n: numpy.array([float(a), float(b)]) for n, a, b in zip(names, st1, st2)})
    if backend == "npf32":
        return vector.array({n: numpy.array([float(a), float(b)], dtype=numpy.float32) for n, a, b in zip(names, st1, st2)})
    if backend == "npint":
        # integer-typed columns (Cartesian systems only: the other systems' coordinates are not integers)
        ip1, ip2 = [1, -2, 3, 10][: len(sig) + 1], [-4, 5, -6, 12][: len(sig) + 1]
        return vector.array({n: numpy.array([a, b], dtype=numpy.int64) for n, a, b in zip(names, ip1, ip2)})
    arr = vector.Array([{n: float(v) for n, v in zip(names, st)} for st in (st1, st2)])
    return arr if backend == "akarr" else arr[0]


def stored_columns(v):
    """(sig, list of stored coordinate collections) for any backend."""
    sig = coords.sig_of(v)
    els = list(v.azimuthal.elements)
    if len(sig) > 1:
        els += list(v.longitudinal.elements)
    if len(sig) > 2:
        els += list(v.temporal.elements)
    return sig, els


def as_list(col):
    import awkward as ak
    from . import mplib

    if isinstance(col, mplib.M):
        return [col.v]
    if isinstance(col, (ak.Array,)):
        return [float(x) for x in ak.to_list(col)]
    a = numpy.asarray(col)
    return [float(x) for x in a.ravel()]


def identical(a, b):
    la, lb = as_list(a), as_list(b)
    if len(la) != len(lb):
        if len(lb) == 1:
            lb = lb * len(la)
        elif len(la) == 1:
            la = la * len(lb)
        else:
            return False
    return all((x == y) for x, y in zip(la, lb))


def carts(v):
    """Cartesian components per element (lists of mpf lists)."""
    sig, cols = stored_columns(v)
    lists = [as_list(c) for c in cols]
    n = max(len(l) for l in lists)
    out = []
    for i in range(n):
        st = [mpf(l[i if len(l) > 1 else 0]) for l in lists]
        out.append(coords.denote(st, sig))
    return out


def run_case(c, backends):
    import vector
    from . import mplib

    recs, calls = [], 0
    src_sig = sig_of_sys(c["src"])
    req = c["req"]
    has_kw = c["lonkw"] != "none" or c["tmpkw"] != "none"
    # keyword values: a generic non-zero number, exactly zero (a massless particle / z = 0 must still be
    # imputed in the coordinate type the keyword names), and an array for array backends
    kwmodes = ["value", "zero", "array"] if has_kw else ["value"]
    for backend, flavor, kwmode in [(b, f, k) for b in backends for f in ("generic", "momentum") for k in kwmodes]:
        if True:
            if kwmode == "array" and backend not in ("np", "akarr", "npf32", "npint"):
                continue
            if backend == "npint" and any(x not in ("xy", "z", "t") for x in src_sig):
                continue
            v = build(backend, flavor, src_sig)
            number = mplib.M if backend == "mp" else float
            KWV = dict(KWVAL) if kwmode != "zero" else {"lon": 0.0, "tmp": 0.0}

            def kwvalue(group):
                if kwmode == "array":
                    import awkward as ak_

                    arr = numpy.array([KWV[group], KWV[group] + 0.5])
                    return arr if backend.startswith("np") else ak_.Array(arr)
                return number(KWV[group])

            kw = {}
            if c["lonkw"] != "none":
                kw[c["lonkw"]] = kwvalue("lon")
            if c["tmpkw"] != "none":
                kw[c["tmpkw"]] = kwvalue("tmp")
            if c["lonkw2"] != "none":
                kw[c["lonkw2"]] = number(KWVAL["lon"] + 1)
            if c["tmpkw2"] != "none":
                kw[c["tmpkw2"]] = number(KWVAL["tmp"] + 1)
            if c["kind"] == "to_system":
                name = method_name(c["tgt"], c["spelling"])
            elif c["kind"] == "to_VectorND":
                name = f"to_Vector{c['n']}D"
            elif c["kind"] == "to_ND":
                name = f"to_{c['n']}D"
            else:
                name = "like"
            base = {"op": name, "sig": [src_sig, None], "backend": backend, "flavor": flavor, "tag": "conv", "kw": sorted(kw), "kwmode": kwmode, "case": c}
            calls += 1
            try:
                with warnings.catch_warnings(), numpy.errstate(all="ignore"):
                    warnings.simplefilter("ignore")
                    if name == "like":
                        other = build("obj" if backend == "mp" else ("np" if backend.startswith("np") else backend), "generic", coords.CANON[c["n"]])
                        out = v.like(other)
                    else:
                        out = getattr(v, name)(**kw)
            except TypeError as ex:
                if req["out"] != "TypeError":
                    recs.append(dict(base, kind="unexpected-TypeError", error=str(ex)[:200]))
                continue
            except Exception as ex:
                recs.append(dict(base, kind="exception", error=f"{type(ex).__name__}: {ex}"[:200]))
                continue
            if req["out"] == "TypeError":
                recs.append(dict(base, kind="missing-TypeError"))
                continue
            if not isinstance(out, vector.Vector):
                recs.append(dict(base, kind="not-a-vector", got=type(out).__name__))
                continue
            rsig, rcols = stored_columns(out)
            want_sig = sig_of_sys(req["sys"])
            if tuple(rsig) != tuple(want_sig):
                recs.append(dict(base, kind="wrong-system", got=list(rsig), want=list(want_sig)))
                continue
            if isinstance(out, vector.Momentum) != (flavor == "momentum"):
                recs.append(dict(base, kind="flavor-changed"))
            if type(out).__module__ != type(v).__module__ and backend != "akrec":
                recs.append(dict(base, kind="backend-changed", got=type(out).__name__))
            ssig, scols = stored_columns(v)
            sfields = dict(zip(coords.field_names(ssig), scols))
            rfields = coords.field_names(rsig)
            computed = False
            for fname, col, status in zip(rfields, rcols, req["coords"]):
                if status[0] == "keep":
                    if not identical(col, sfields[status[1]]):
                        recs.append(dict(base, kind="kept-coordinate-changed", field=fname, got=repr(as_list(col))[:80],
                                         want=repr(as_list(sfields[status[1]]))[:80]))
                elif status[0] == "kw":
                    val = KWV["lon"] if status[1] in ("z", "pz", "theta", "eta") else KWV["tmp"]
                    want_vals = [val, val + 0.5] if kwmode == "array" else None
                    got_vals = as_list(col)
                    if (want_vals is not None and got_vals != want_vals) or (want_vals is None and not all(x == val for x in got_vals)):
                        recs.append(dict(base, kind="imputed-value-wrong", field=fname, got=repr(got_vals)[:80], want=want_vals or val))
                elif status[0] == "zero":
                    if not all(x == 0 for x in as_list(col)):
                        recs.append(dict(base, kind="imputed-zero-wrong", field=fname, got=repr(as_list(col))[:80]))
                else:
                    computed = True
            # computed groups: same geometric part as the source, and the way back
            tol = MP_TOL if backend == "mp" else (mpf(10) ** -5 if backend == "npf32" else F64_TOL)
            nsrc = len(ssig) + 1
            cs, cr = carts(v), carts(out)
            for es, er in zip(cs, cr):
                scale = 1 + max(abs(x) for x in es)
                for i in range(min(nsrc, len(er))):
                    if not close_num(er[i], es[i], tol * scale * 100):
                        recs.append(dict(base, kind="denotation-changed", component=i, got=mpmath.nstr(er[i], 25), want=mpmath.nstr(es[i], 25)))
                        break
            if c["kind"] == "to_system" and len(rsig) == len(ssig):
                calls += 1
                try:
                    back = getattr(out, "to_" + "".join(coords.field_names(ssig)))()
                    for es, eb in zip(cs, carts(back)):
                        scale = 1 + max(abs(x) for x in es)
                        if any(not close_num(a, b, tol * scale * 100) for a, b in zip(es, eb)):
                            recs.append(dict(base, kind="round-trip-differs", got=[mpmath.nstr(x, 20) for x in eb], want=[mpmath.nstr(x, 20) for x in es]))
                            break
                    if tuple(coords.sig_of(back)) != tuple(ssig):
                        recs.append(dict(base, kind="round-trip-wrong-system", got=list(coords.sig_of(back))))
                except Exception as ex:
                    recs.append(dict(base, kind="exception", error=f"round trip: {type(ex).__name__}: {ex}"[:200]))
    return recs, calls


def worker(args):
    chunk, backends = args
    out = {"records": [], "calls": 0, "cases": 0}
    for c in chunk:
        try:
            r, n = run_case(c, backends)
        except Exception as ex:
            from . import common as _c
            r, n = [_c.crash_record("conversion", ex, case=c)], 0
        out["records"] += r
        out["calls"] += n
        out["cases"] += 1
    return out


def replay(cases, backends=("mp", "obj", "np", "akarr", "akrec", "npf32", "npint"), procs=16):
    import multiprocessing as mp

    n = max(1, min(procs, len(cases)))
    chunks = [cases[i::n * 4] for i in range(n * 4)]
    chunks = [c for c in chunks if c]
    total = {"records": [], "calls": 0, "cases": 0}
    with mp.get_context("fork").Pool(n) as pool:
        for out in pool.imap_unordered(worker, [(c, backends) for c in chunks]):
            total["records"] += out["records"]
            total["calls"] += out["calls"]
            total["cases"] += out["cases"]
    return total
