"""gamma (concretisation) and alpha (projection) between abstract Cartesian vectors and
stored coordinates.  Small, explicit and trusted: listed in every evidence file.

Abstract vector: list of mpf [x, y(, z(, t))].
Signature: tuple (az,), (az, lon) or (az, lon, tmp) with az in {"xy","rhophi"},
lon in {"z","theta","eta"}, tmp in {"t","tau"}.

alpha never calls vector's own converters: a bug in e.g. x.rhophi must not cancel.
"""
from __future__ import annotations

import itertools

import mpmath

mpf = mpmath.mpf

AZ = ("xy", "rhophi")
LON = ("z", "theta", "eta")
TMP = ("t", "tau")

AZ_NAMES = {"xy": ("x", "y"), "rhophi": ("rho", "phi")}
MOM_NAMES = {"x": "px", "y": "py", "rho": "pt", "phi": "phi", "z": "pz", "theta": "theta",
             "eta": "eta", "t": "E", "tau": "mass"}


def signatures(dim):
    if dim == 2:
        return [(a,) for a in AZ]
    if dim == 3:
        return [(a, l) for a in AZ for l in LON]
    return [(a, l, t) for a in AZ for l in LON for t in TMP]


CANON = {2: ("xy",), 3: ("xy", "z"), 4: ("xy", "z", "t")}


def field_names(sig):
    names = list(AZ_NAMES[sig[0]])
    if len(sig) > 1:
        names.append(sig[1])
    if len(sig) > 2:
        names.append(sig[2])
    return names


def representable(vec, sig, eps=mpf(10) ** -45):
    """The domain stated by C01: off the z axis for theta/eta storage, t >= 0 for tau."""
    x, y = vec[0], vec[1]
    if len(sig) > 1 and sig[1] in ("theta", "eta"):
        scale = max(abs(x), abs(y), abs(vec[2]), mpf(1))
        if mpmath.sqrt(x * x + y * y) <= eps * scale:
            return False
    if len(sig) > 2 and sig[2] == "tau":
        if vec[3] < 0:
            return False
    return True


def store(vec, sig):
    """gamma: stored coordinates (mpf) of the abstract vector in the given system."""
    x, y = vec[0], vec[1]
    rho = mpmath.sqrt(x * x + y * y)
    out = []
    if sig[0] == "xy":
        out += [x, y]
    else:
        out += [rho, mpmath.atan2(y, x)]
    if len(sig) > 1:
        z = vec[2]
        if sig[1] == "z":
            out.append(z)
        elif sig[1] == "theta":
            out.append(mpmath.atan2(rho, z))
        else:
            out.append(mpmath.asinh(z / rho))
    if len(sig) > 2:
        t = vec[3]
        if sig[2] == "t":
            out.append(t)
        else:
            m2 = x * x + y * y + vec[2] * vec[2]
            t2 = t * t - m2
            out.append(mpmath.sqrt(t2) if t2 >= 0 else -mpmath.sqrt(-t2))
    return out


def denote(stored, sig):
    """alpha: Cartesian components of stored coordinates (own formulas)."""
    if sig[0] == "xy":
        x, y = stored[0], stored[1]
        rho = mpmath.sqrt(x * x + y * y)
    else:
        rho, phi = stored[0], stored[1]
        x, y = rho * mpmath.cos(phi), rho * mpmath.sin(phi)
    out = [x, y]
    if len(sig) > 1:
        l = stored[2]
        if sig[1] == "z":
            z = l
        elif sig[1] == "theta":
            z = rho * mpmath.cos(l) / mpmath.sin(l) if mpmath.sin(l) != 0 else mpf("nan")
        else:
            z = rho * mpmath.sinh(l)
        out.append(z)
    if len(sig) > 2:
        tt = stored[3]
        if sig[2] == "t":
            t = tt
        else:
            m2 = out[0] ** 2 + out[1] ** 2 + out[2] ** 2
            s = tt * tt if tt >= 0 else -(tt * tt)
            v = s + m2
            t = mpmath.sqrt(v) if v > 0 else mpf(0)
        out.append(t)
    return out


def to_mpf(x):
    from .mplib import M

    if isinstance(x, M):
        return x.v
    if isinstance(x, mpf):
        return x
    if isinstance(x, bool):
        raise TypeError("bool is not a coordinate")
    try:
        return mpf(float(x)) if not isinstance(x, int) else mpf(x)
    except TypeError:
        raise


def sig_of(obj):
    """Coordinate system of a vector (object / numpy / awkward) from its coordinate classes."""
    import vector

    az = "xy" if isinstance(obj.azimuthal, vector.AzimuthalXY) else "rhophi"
    sig = [az]
    if hasattr(obj, "longitudinal") and isinstance(obj, (vector.Vector3D, vector.Vector4D)):
        l = obj.longitudinal
        sig.append("z" if isinstance(l, vector.LongitudinalZ)
                   else "theta" if isinstance(l, vector.LongitudinalTheta) else "eta")
    if isinstance(obj, vector.Vector4D):
        sig.append("t" if isinstance(obj.temporal, vector.TemporalT) else "tau")
    return tuple(sig)


def stored_of(obj):
    """Stored coordinates of an object-backend vector as a list of mpf."""
    els = list(obj.azimuthal.elements)
    import vector

    if isinstance(obj, (vector.Vector3D, vector.Vector4D)):
        els += list(obj.longitudinal.elements)
    if isinstance(obj, vector.Vector4D):
        els += list(obj.temporal.elements)
    return [to_mpf(e) for e in els]


def project(obj):
    """alpha for object-backend vectors: (sig, stored mpf list, Cartesian mpf list)."""
    sig = sig_of(obj)
    st = stored_of(obj)
    return sig, st, denote(st, sig)


def build(classes, flavor, vec, sig, number):
    """Build an object-backend vector of the given class family from an abstract vector.

    `number` converts an mpf into the coordinate type (M for mp classes, float for f64).
    """
    from vector.backends import object as vobj

    st = [number(c) for c in store(vec, sig)]
    az = vobj.AzimuthalObjectXY(st[0], st[1]) if sig[0] == "xy" else vobj.AzimuthalObjectRhoPhi(st[0], st[1])
    n = len(vec)
    cls = classes[(flavor, n)]
    if n == 2:
        return cls(azimuthal=az)
    lon = {"z": vobj.LongitudinalObjectZ, "theta": vobj.LongitudinalObjectTheta,
           "eta": vobj.LongitudinalObjectEta}[sig[1]](st[2])
    if n == 3:
        return cls(azimuthal=az, longitudinal=lon)
    tmp = {"t": vobj.TemporalObjectT, "tau": vobj.TemporalObjectTau}[sig[2]](st[3])
    return cls(azimuthal=az, longitudinal=lon, temporal=tmp)


def f64_classes():
    import vector

    return {("generic", 2): vector.VectorObject2D, ("generic", 3): vector.VectorObject3D,
            ("generic", 4): vector.VectorObject4D, ("momentum", 2): vector.MomentumObject2D,
            ("momentum", 3): vector.MomentumObject3D, ("momentum", 4): vector.MomentumObject4D}


def sig_pairs(dima, dimb):
    return list(itertools.product(signatures(dima), signatures(dimb)))


def result_ok(cart, sig):
    """All components finite and representable in `sig` (used when comparing code against code)."""
    if any(mpmath.isnan(c) or mpmath.isinf(c) for c in cart):
        return False
    return representable(cart, sig, eps=mpf(10) ** -30)
