"""External coverage of the compute layer: every entry of every `dispatch_map` is wrapped (in the
harness process only - no source change) so that the evidence can say which of the hand-written or
generated variants were actually executed by a replay."""
from __future__ import annotations

import importlib
import pkgutil

_counts = {}
_installed = False
_total = 0


def _key(modname, sig):
    parts = []
    for s in sig:
        parts.append(getattr(s, "__name__", str(s)))
    return modname.split("_compute.")[-1] + ":" + ",".join(parts)


def install():
    global _installed, _total
    if _installed:
        return _total
    import vector._compute as root

    total = 0
    for pkg in ("planar", "spatial", "lorentz"):
        p = importlib.import_module(f"vector._compute.{pkg}")
        for m in pkgutil.iter_modules(p.__path__):
            mod = importlib.import_module(f"vector._compute.{pkg}.{m.name}")
            dm = getattr(mod, "dispatch_map", None)
            if not isinstance(dm, dict):
                continue
            for sig, val in list(dm.items()):
                f = val[0]
                k = _key(mod.__name__, sig)
                _counts.setdefault(k, 0)
                total += 1

                def make(f=f, k=k):
                    def wrapped(*a, **kw):
                        _counts[k] += 1
                        return f(*a, **kw)

                    wrapped.__wrapped__ = f
                    wrapped.__name__ = getattr(f, "__name__", "f")
                    return wrapped

                dm[sig] = (make(),) + tuple(val[1:])
    _installed = True
    _total = total
    return total


def snapshot():
    return dict(_counts)
