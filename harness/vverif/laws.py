"""Replay of the multi-step programs of Laws.tla (C09, C10, C11) into the real code.

For every finished behaviour printed by TLC the program is executed through the public
API: loads are concretised in varying coordinate systems / flavors, intermediate results
stay in whatever system the code returned them in.  After each step the code's register
is compared with the specification's register; at the end every assertion (law) is also
evaluated on the code's own registers, without any oracle.
"""
from __future__ import annotations

import json

import mpmath

from . import algebra, coords, terms
from .algebra import MP_TOL, F64_TOL, SING_MP, SING_F64, _finite, _h, close_num, rat, result_kind
from .coords import project, representable, signatures, to_mpf

mpf = mpmath.mpf


def spec_value(r):
    if r[0] == "vec":
        return "vec", [terms.ev(c) for c in r[1]]
    if r[0] == "num":
        return "num", terms.ev(r[1])
    return r[0], None


class Reg:
    __slots__ = ("obj", "kind", "val", "sig", "stored")

    def __init__(self, obj, kind, val, sig=None, stored=None):
        self.obj, self.kind, self.val, self.sig, self.stored = obj, kind, val, sig, stored


def vec_close(a, b, eps, sing_eps):
    """Two Reg vectors denote the same geometric vector (Cartesian comparison; the time
    component of a tau-stored vector is compared through tau when that is better conditioned)."""
    if len(a.val) != len(b.val):
        return False
    n = len(a.val)
    for i in range(min(3, n)):
        if not close_num(a.val[i], b.val[i], eps):
            return False
    if n == 4:
        if close_num(a.val[3], b.val[3], eps):
            return True
        # t through tau storage is sqrt-conditioned near t = 0 / the light cone
        ta = a.val[3] ** 2 - sum(c * c for c in a.val[:3])
        tb = b.val[3] ** 2 - sum(c * c for c in b.val[:3])
        tau_a = mpmath.sqrt(ta) if ta >= 0 else -mpmath.sqrt(-ta)
        tau_b = mpmath.sqrt(tb) if tb >= 0 else -mpmath.sqrt(-tb)
        if (a.sig and a.sig[2] == "tau") or (b.sig and b.sig[2] == "tau"):
            sa = a.stored[3] if a.sig and a.sig[2] == "tau" else tau_a
            sb = b.stored[3] if b.sig and b.sig[2] == "tau" else tau_b
            return close_num(sa, sb, sing_eps) and (a.val[3] >= -sing_eps) == (b.val[3] >= -sing_eps)
        return False
    return True


def run_program(prog, classes, number, mode, variant):
    tol = MP_TOL if mode == "mp" else F64_TOL
    sing = SING_MP if mode == "mp" else SING_F64
    regs = {}
    records = []
    calls = 0
    key = prog["name"] + json.dumps(prog["code"], sort_keys=True)
    # pass 1: execute
    for k, ins in enumerate(prog["code"]):
        d = ins["dst"]
        if ins["op"] == "load":
            vec = [rat(c) for c in ins["p"][0]]
            sigs = [s for s in signatures(len(vec)) if representable(vec, s)]
            hv = int(__import__("hashlib").sha256(f"{key}|{k}|{variant}".encode()).hexdigest()[:8], 16)
            sig = sigs[hv % len(sigs)] if variant else sigs[0]
            flavor = "momentum" if (hv >> 8) % 2 else "generic"
            obj = coords.build(classes, flavor, vec, sig, number)
            _, st, cart = project(obj)
            regs[d] = Reg(obj, "vec", cart, sig, st)
            continue
        A = regs.get(ins["a"])
        B = regs.get(ins["b"]) if ins["b"] else None
        if A is None or A.kind != "vec" or (ins["b"] and (B is None or B.kind != "vec")):
            regs[d] = Reg(None, "skip", None)
            continue
        pseudo = {"op": ins["op"], "a": [], "b": [], "p": ins["p"], "variant": variant}
        a_obj = A.obj
        if ins["op"] in algebra.MOMENTUM_ONLY and not hasattr(a_obj, ins["op"]):
            regs[d] = Reg(None, "skip", None)
            continue
        try:
            raw = algebra.call_op(pseudo, a_obj, B.obj if B else None, number)
            calls += 1
        except Exception as ex:
            records.append({"kind": "error", "tag": prog["name"], "step": k, "op": ins["op"],
                            "error": f"{type(ex).__name__}: {ex}"[:300]})
            regs[d] = Reg(None, "skip", None)
            continue
        rk = result_kind(ins["op"])
        if rk == "num":
            regs[d] = Reg(raw, "num", to_mpf(raw))
        elif rk == "vec":
            sig, st, cart = project(raw)
            regs[d] = Reg(raw, "vec", cart, sig, st)
        else:
            regs[d] = Reg(raw, "bool", bool(raw))
    # scale from everything the program touched
    S = mpf(1)
    for r in regs.values():
        if r.kind == "vec":
            for c in list(r.val) + list(r.stored or []):
                if _finite(c):
                    S = max(S, abs(c))
        elif r.kind == "num" and _finite(r.val):
            S = max(S, mpmath.sqrt(abs(r.val)))
    for r in prog["regs"]:
        if r[0] == "vec":
            for c in r[1]:
                if c[0] == "q":
                    S = max(S, abs(rat(c)))
    eps = tol * S * S * 16
    sing_eps = sing * S * S
    compared = 0
    # pass 2: registers against the specification's registers
    for k, ins in enumerate(prog["code"]):
        d = ins["dst"]
        r = regs.get(d)
        sk, sv = spec_value(prog["regs"][d - 1])
        if r is None or ins["op"] == "load":
            continue
        srcs = [regs.get(i) for i in (ins["a"], ins["b"]) if i]
        if sk == "undef" or any(s is None or s.kind == "skip" for s in srcs):
            r.kind = "skip"      # outside the domain of the specification, or derived from such a register
            continue
        if r.kind == "skip" or sv is None:
            continue
        cbrt = ins["op"] == "np_cbrt"
        e = max(eps, mpf(10) ** -14 * S) if cbrt else eps
        if sk == "num" and r.kind == "num":
            compared += 1
            ee = e
            if ins["op"] in algebra.SQRT_LIKE and any(abs(sv - s0) <= mpf(10) ** -15 * S for s0 in algebra.SQRT_LIKE[ins["op"]]):
                ee = sing_eps
            if ee == sing_eps and ins["op"] in algebra.NAN_AT_BRANCH and mpmath.isnan(r.val):
                r.kind = "skip"
                continue
            if ee == sing_eps and ins["op"] in ("np_sqrt", "np_cbrt"):
                # 4th / 6th root of a rounding residue (1e-60 ** (1/6) = 1e-10): only the sign of the
                # radicand is uncertain at the branch point; accept anything of that size
                if abs(r.val) <= mpf(10) ** (-9 if mode == "mp" else -2) * S:
                    continue
            if not close_num(r.val, sv, ee):
                records.append({"kind": "register", "tag": prog["name"], "step": k, "op": ins["op"],
                                "got": mpmath.nstr(r.val, 30), "want": mpmath.nstr(sv, 30)})
        elif sk == "vec" and r.kind == "vec":
            if not algebra.result_representable(sv, r.sig):
                r.kind = "skip"       # exact result not representable in the system the code chose
                continue
            compared += 1
            target = Reg(None, "vec", sv)
            if not vec_close(r, target, eps, sing_eps):
                records.append({"kind": "register", "tag": prog["name"], "step": k, "op": ins["op"], "rsig": r.sig,
                                "got": [mpmath.nstr(c, 25) for c in r.val], "want": [mpmath.nstr(c, 25) for c in sv]})
    # pass 3: the laws on the code's own outputs
    def num(i):
        if i == 9999:
            return mpf(0)
        r = regs.get(i)
        return r.val if r is not None and r.kind == "num" and _finite(r.val) else None

    def vec(i):
        r = regs.get(i)
        return r if r is not None and r.kind == "vec" and all(_finite(c) for c in r.val) else None

    for a in prog["asserts"]:
        ok = None
        kind = a[0]
        if kind == "eq":
            ri, rj = regs.get(a[1]), regs.get(a[2])
            if ri is None or rj is None or ri.kind != rj.kind:
                continue
            if ri.kind == "num" and num(a[1]) is not None and num(a[2]) is not None:
                ok = close_num(ri.val, rj.val, max(eps, sing_eps if min(abs(ri.val), abs(rj.val)) < mpf(10) ** -12 * S else eps))
            elif ri.kind == "vec" and vec(a[1]) and vec(a[2]):
                ok = vec_close(ri, rj, eps, sing_eps)
        elif kind == "lin":
            r, s, t = num(a[1]), num(a[2]), num(a[3])
            if None not in (r, s, t):
                ok = close_num(r, s + rat(a[4]) * t, eps * (1 + abs(rat(a[4]))))
        elif kind == "lagr":
            c, x, y, dd = num(a[1]), num(a[2]), num(a[3]), num(a[4])
            if None not in (c, x, y, dd):
                ok = close_num(c, x * y - dd * dd, eps * S * S)
        elif kind == "one":
            r = num(a[1])
            if r is not None:
                ok = close_num(abs(r), mpf(1), tol * 1000)
        elif kind == "par":
            u, n, v = vec(a[1]), num(a[2]), vec(a[3])
            if u and n is not None and v:
                scaled = Reg(None, "vec", [c * abs(n) for c in u.val])
                ok = vec_close(scaled, Reg(None, "vec", v.val), eps, sing_eps)
        elif kind == "sq":
            s, n = num(a[1]), num(a[2])
            if s is not None and n is not None:
                ok = close_num(abs(s), n * n, eps)
        if ok is None:
            continue
        compared += 1
        if not ok:
            records.append({"kind": "law", "tag": prog["name"], "op": prog["name"], "assert": a,
                            "regs": {str(i): ([mpmath.nstr(c, 20) for c in regs[i].val] if regs[i].kind == "vec" else mpmath.nstr(regs[i].val, 25))
                                     for i in a[1:] if isinstance(i, int) and i in regs and regs[i].kind in ("vec", "num")}})
    for r in records:
        r["prog"] = {"name": prog["name"], "code": prog["code"], "asserts": prog["asserts"]}
        r["mode"] = mode
        r["variant"] = variant
    return records, calls, compared


def worker(args):
    progs, mode, variants = args
    from . import mplib
    import numpy

    if mode == "mp":
        classes, number = mplib.mp_classes(), mplib.M
    else:
        classes, number = coords.f64_classes(), (lambda v: numpy.float64(float(v)))
    out = {"programs": 0, "calls": 0, "compared": 0, "records": []}
    for prog in progs:
        for variant in range(variants):
            with numpy.errstate(all="ignore"):
                try:
                    recs, calls, compared = run_program(prog, classes, number, mode, variant)
                except Exception as ex:
                    from . import common as _c
                    recs, calls, compared = [_c.crash_record("program:" + prog["name"], ex, prog={"name": prog["name"], "code": prog["code"]})], 0, 0
            out["calls"] += calls
            out["compared"] += compared
            out["records"] += recs
        out["programs"] += 1
    return out


def replay(progs, mode="mp", variants=3, procs=16):
    import multiprocessing as mp

    n = max(1, min(procs, len(progs)))
    chunks = [progs[i::n * 4] for i in range(n * 4)]
    chunks = [c for c in chunks if c]
    total = {"programs": 0, "calls": 0, "compared": 0, "records": []}
    with mp.get_context("fork").Pool(n) as pool:
        for out in pool.imap_unordered(worker, [(c, mode, variants) for c in chunks]):
            for k in ("programs", "calls", "compared"):
                total[k] += out[k]
            total["records"] += out["records"]
    return total
