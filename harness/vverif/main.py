"""Entry point: bin/check <ID> --tier quick|thorough [--replay path].

exit 0: the property held on everything explored (known findings are listed, not alarms)
exit 1: a violation not listed in known_findings.json (a VIOLATION line was printed)
exit 2: machinery failure (TLC error, vacuous run, harness bug) - never a verdict
"""
from __future__ import annotations

import argparse
import importlib
import json
import os
import sys
import traceback

from . import common

REGISTRY = {
    "C01": ("vverif.checks_algebra", "check_c01"),
    "C02": ("vverif.checks_algebra", "check_c02"),
    "C13": ("vverif.checks_algebra", "check_c13"),
    "C05": ("vverif.checks_types", "check_c05"),
    "C06": ("vverif.checks_names", "check_c06"),
    "C14": ("vverif.checks_names", "check_c14"),
    "C12": ("vverif.checks_names", "check_c12"),
    "C04": ("vverif.checks_names", "check_c04"),
    "C15": ("vverif.checks_objsm", "check_c15"),
    "C16": ("vverif.checks_session", "check_c16"),
    "C20": ("vverif.checks_session", "check_c20"),
    "C03": ("vverif.checks_arrays", "check_c03"),
    "C17": ("vverif.checks_arrays", "check_c17"),
    "C18": ("vverif.checks_arrays", "check_c18"),
    "C19": ("vverif.checks_arrays", "check_c19"),
    "C07": ("vverif.checks_backends", "check_c07"),
    "C08": ("vverif.checks_backends", "check_c08"),
    "C09": ("vverif.checks_laws", "check_c09"),
    "C10": ("vverif.checks_laws", "check_c10"),
    "C11": ("vverif.checks_laws", "check_c11"),
}


def main(argv=None):
    ap = argparse.ArgumentParser()
    ap.add_argument("prop")
    ap.add_argument("--tier", default=os.environ.get("VERIF_TIER", "quick"), choices=["quick", "thorough"])
    ap.add_argument("--replay", default=None)
    args = ap.parse_args(argv)
    if args.prop not in REGISTRY:
        print(f"unknown property {args.prop}", file=sys.stderr)
        return 2
    modname, fn = REGISTRY[args.prop]
    try:
        import vector

        want = os.path.realpath(os.path.join(os.environ.get("VERIF_REPO") or "/repo", "src", "vector"))
        if os.path.realpath(os.path.dirname(vector.__file__)) != want:
            print(f"MACHINERY-FAILURE: vector imported from {vector.__file__}, expected {want}", file=sys.stderr)
            return 2
        mod = importlib.import_module(modname)
        if args.replay:
            return getattr(mod, "replay_file")(args.prop, args.replay)
        timer = common.Timer()
        result = getattr(mod, fn)(args.tier)
        nviol = result["violations"]
        path = common.write_evidence(args.prop, args.tier, result["level"], result["coverage"], timer(),
                                     nviol, result.get("assumptions", []))
        print(f"{args.prop} tier={args.tier}: {result.get('summary', '')} violations={nviol} "
              f"known={result.get('known', 0)} wall={timer():.1f}s evidence={path}")
        return 1 if nviol else 0
    except Exception as ex:
        tb = traceback.format_exc()
        # (tracebacks of pool workers arrive as text inside the exception)
        text = tb + "\n" + "".join(str(a) for a in getattr(ex, "args", ()))
        cause = getattr(ex, "__cause__", None)
        if cause is not None:
            text += "\n" + str(cause)
        libdir = os.path.join(os.environ.get("VERIF_REPO") or "/repo", "src", "vector") + os.sep
        from_library = any(libdir in ln for ln in text.splitlines() if ln.strip().startswith("File "))
        is_machinery = any(k in type(ex).__name__ for k in ("TLCError", "TLCViolation", "TimeoutExpired", "MemoryError")) or "vacuous" in str(ex)
        if from_library and not is_machinery:
            # the library raised on a call every check expects to work (the harness has no such call on the unchanged
            # tree): that is a finding about the library, reported as such with the traceback as the replay
            os.makedirs(common.REPLAY_DIR, exist_ok=True)
            path = os.path.join(common.REPLAY_DIR, f"{args.prop}-uncaught-exception.json")
            with open(path, "w") as f:
                json.dump({"property": args.prop, "kind": "uncaught-exception-from-the-library", "traceback": text[-6000:]}, f, indent=1)
            print(f"VIOLATION property={args.prop} replay={path}")
            print("  the library raised inside a call the check expects to work: " + text.strip().splitlines()[-1][:300])
            try:
                common.write_evidence(args.prop, args.tier, "model_checking",
                                      {"evaluations": 0, "distinct_nontrivial": 0, "states": 0, "transitions": 0, "traces_validated_against_impl": 0,
                                       "rule": "the run was aborted by an exception raised inside the library; see the replay file",
                                       "samples": [{"traceback_tail": text.strip().splitlines()[-3:]}], "exhaustive": False}, 0.0, 1, [])
            except Exception:
                pass
            return 1
        sys.stderr.write(tb)
        print(f"MACHINERY-FAILURE property={args.prop}", file=sys.stderr)
        return 2


if __name__ == "__main__":
    sys.exit(main())
