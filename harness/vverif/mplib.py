"""60-digit arithmetic adapter for the object backend.

``M`` wraps an mpmath ``mpf`` with IEEE-like semantics (division by zero gives
inf/nan instead of raising, sqrt/log/arccos outside their domain give nan), so the
*unmodified* compute functions of ``vector`` can be run on it through the ``lib``
protocol (``MpLib``).  ``mp_classes()`` returns subclasses of the six object-backend
classes whose ``lib`` is an ``MpLib`` instance; everything else (methods, dispatch,
``_wrap_result``, operators, ufunc overrides, ``+=``) is the repository's own code.
"""
from __future__ import annotations

import numbers

import mpmath

mpmath.mp.dps = 60
_mpf = mpmath.mpf
_INF = _mpf("inf")
_NAN = _mpf("nan")
_ZERO = _mpf(0)


def _raw(x):
    if isinstance(x, M):
        return x.v
    if isinstance(x, bool):
        return _mpf(int(x))
    if isinstance(x, (int, float)):
        return _mpf(x)
    if isinstance(x, _mpf):
        return x
    try:
        import numpy

        if isinstance(x, numpy.generic):
            return _mpf(x.item())
    except Exception:
        pass
    raise TypeError(f"cannot lift {type(x).__name__} to M")


def _isnan(v):
    return v != v


class M:
    """An extended-precision real with IEEE-like exceptional behaviour."""

    __slots__ = ("v",)
    __array_priority__ = 1000

    def __init__(self, v=0):
        self.v = _raw(v)

    # ------------------------------------------------------------------ misc
    def __repr__(self):
        return "M(" + mpmath.nstr(self.v, 25) + ")"

    def __float__(self):
        return float(self.v)

    def __bool__(self):
        return self.v != 0

    def __hash__(self):
        return hash(self.v)

    # ------------------------------------------------------------ arithmetic
    def __add__(self, o):
        try:
            return M(self.v + _raw(o))
        except TypeError:
            return NotImplemented

    __radd__ = __add__

    def __sub__(self, o):
        try:
            return M(self.v - _raw(o))
        except TypeError:
            return NotImplemented

    def __rsub__(self, o):
        try:
            return M(_raw(o) - self.v)
        except TypeError:
            return NotImplemented

    def __mul__(self, o):
        try:
            return M(self.v * _raw(o))
        except TypeError:
            return NotImplemented

    __rmul__ = __mul__

    @staticmethod
    def _div(a, b):
        if b == 0:
            if a == 0 or _isnan(a):
                return _NAN
            return _INF if a > 0 else -_INF
        if mpmath.isinf(a) and mpmath.isinf(b):
            return _NAN
        return a / b

    def __truediv__(self, o):
        try:
            return M(M._div(self.v, _raw(o)))
        except TypeError:
            return NotImplemented

    def __rtruediv__(self, o):
        try:
            return M(M._div(_raw(o), self.v))
        except TypeError:
            return NotImplemented

    @staticmethod
    def _pow(a, b):
        if b == 0:
            return _mpf(1)
        if a == 0:
            if b < 0:
                return _INF
            return _ZERO
        if a < 0 and b != int(b):
            return _NAN
        if mpmath.isinf(a):
            if a > 0:
                return _INF if b > 0 else _ZERO
            return _NAN
        return mpmath.power(a, b)

    def __pow__(self, o):
        try:
            return M(M._pow(self.v, _raw(o)))
        except TypeError:
            return NotImplemented

    def __rpow__(self, o):
        try:
            return M(M._pow(_raw(o), self.v))
        except TypeError:
            return NotImplemented

    def __mod__(self, o):
        b = _raw(o)
        a = self.v
        if b == 0 or mpmath.isinf(a) or _isnan(a):
            return M(_NAN)
        r = a - b * mpmath.floor(a / b)
        return M(r)

    def __neg__(self):
        return M(-self.v)

    def __pos__(self):
        return self

    def __abs__(self):
        return M(abs(self.v))

    # ----------------------------------------------------------- comparisons
    def __eq__(self, o):
        try:
            return bool(self.v == _raw(o))
        except TypeError:
            return NotImplemented

    def __ne__(self, o):
        try:
            return bool(self.v != _raw(o))
        except TypeError:
            return NotImplemented

    def __lt__(self, o):
        return bool(self.v < _raw(o))

    def __le__(self, o):
        return bool(self.v <= _raw(o))

    def __gt__(self, o):
        return bool(self.v > _raw(o))

    def __ge__(self, o):
        return bool(self.v >= _raw(o))


numbers.Real.register(M)


def _un(f, dom=None):
    def g(self, x):
        v = _raw(x)
        if _isnan(v):
            return M(_NAN)
        if dom is not None and not dom(v):
            return M(_NAN)
        return M(f(v))

    return g


class MpLib:
    """The subset of the NumPy namespace that vector's compute functions use."""

    pi = M(+mpmath.pi)
    inf = M(_INF)
    nan = M(_NAN)
    e = M(+mpmath.e)

    def __eq__(self, other):  # _lib_of compares libs with !=
        return isinstance(other, MpLib)

    def __ne__(self, other):
        return not isinstance(other, MpLib)

    def __hash__(self):
        return 17

    def __repr__(self):
        return "<MpLib 60 digits>"

    def sqrt(self, x):
        v = _raw(x)
        if _isnan(v) or v < 0:
            return M(_NAN)
        return M(mpmath.sqrt(v))

    def cbrt(self, x):
        v = _raw(x)
        if _isnan(v):
            return M(_NAN)
        return M(mpmath.cbrt(v)) if v >= 0 else M(-mpmath.cbrt(-v))

    sin = _un(mpmath.sin, lambda v: not mpmath.isinf(v))
    cos = _un(mpmath.cos, lambda v: not mpmath.isinf(v))
    sinh = _un(mpmath.sinh)
    cosh = _un(mpmath.cosh)
    tanh = _un(mpmath.tanh)
    exp = _un(mpmath.exp)
    arcsinh = _un(mpmath.asinh)
    arctan = _un(mpmath.atan)
    arcsin = _un(mpmath.asin, lambda v: -1 <= v <= 1)
    arccos = _un(mpmath.acos, lambda v: -1 <= v <= 1)
    arccosh = _un(mpmath.acosh, lambda v: v >= 1)

    def tan(self, x):
        v = _raw(x)
        if _isnan(v) or mpmath.isinf(v):
            return M(_NAN)
        c = mpmath.cos(v)
        return M(M._div(mpmath.sin(v), c))

    def arctanh(self, x):
        v = _raw(x)
        if _isnan(v) or v < -1 or v > 1:
            return M(_NAN)
        if v == 1:
            return M(_INF)
        if v == -1:
            return M(-_INF)
        return M(mpmath.atanh(v))

    def log(self, x):
        v = _raw(x)
        if _isnan(v) or v < 0:
            return M(_NAN)
        if v == 0:
            return M(-_INF)
        return M(mpmath.log(v))

    def arctan2(self, y, x):
        a, b = _raw(y), _raw(x)
        if _isnan(a) or _isnan(b):
            return M(_NAN)
        if mpmath.isinf(a) or mpmath.isinf(b):
            # IEEE conventions
            if mpmath.isinf(a) and mpmath.isinf(b):
                base = mpmath.pi / 4 if b > 0 else 3 * mpmath.pi / 4
                return M(base if a > 0 else -base)
            if mpmath.isinf(a):
                return M(mpmath.pi / 2 if a > 0 else -mpmath.pi / 2)
            return M(_ZERO if b > 0 else (mpmath.pi if a >= 0 else -mpmath.pi))
        return M(mpmath.atan2(a, b))

    def absolute(self, x):
        return M(abs(_raw(x)))

    abs = absolute

    def sign(self, x):
        v = _raw(x)
        if _isnan(v):
            return M(_NAN)
        return M(mpmath.sign(v))

    def copysign(self, x, y):
        a, b = _raw(x), _raw(y)
        if _isnan(a):
            return M(_NAN)
        # mpf has no signed zero: +0 counts as positive, like numpy for +0.0
        if isinstance(y, float):
            import math

            neg = math.copysign(1.0, y) < 0
        else:
            neg = (b < 0)
        return M(-abs(a) if neg else abs(a))

    def maximum(self, x, y):
        a, b = _raw(x), _raw(y)
        if _isnan(a) or _isnan(b):
            return M(_NAN)
        return M(a if a >= b else b)

    def minimum(self, x, y):
        a, b = _raw(x), _raw(y)
        if _isnan(a) or _isnan(b):
            return M(_NAN)
        return M(a if a <= b else b)

    def nan_to_num(self, x, copy=True, nan=0.0, posinf=None, neginf=None):
        v = _raw(x)
        if _isnan(v):
            return M(_raw(nan))
        if mpmath.isinf(v):
            if v > 0:
                return M(_raw(posinf)) if posinf is not None else M(_mpf("1e4000"))
            return M(_raw(neginf)) if neginf is not None else M(_mpf("-1e4000"))
        return M(v)

    def isclose(self, a, b, rtol=1e-05, atol=1e-08, equal_nan=False):
        x, y = _raw(a), _raw(b)
        if _isnan(x) or _isnan(y):
            return bool(equal_nan) and _isnan(x) and _isnan(y)
        if mpmath.isinf(x) or mpmath.isinf(y):
            return bool(x == y)
        return bool(abs(x - y) <= _raw(atol) + _raw(rtol) * abs(y))

    def isnan(self, x):
        return _isnan(_raw(x))

    def isinf(self, x):
        return bool(mpmath.isinf(_raw(x)))

    def isfinite(self, x):
        v = _raw(x)
        return not (_isnan(v) or mpmath.isinf(v))


_CLASSES = None


def mp_classes():
    """Subclasses of the object backend running on ``MpLib``; built once."""
    global _CLASSES
    if _CLASSES is not None:
        return _CLASSES
    import vector
    from vector.backends import object as vobj

    lib = MpLib()
    out = {}
    for flavor, names in (
        ("generic", ("VectorObject2D", "VectorObject3D", "VectorObject4D")),
        ("momentum", ("MomentumObject2D", "MomentumObject3D", "MomentumObject4D")),
    ):
        for n, name in zip((2, 3, 4), names):
            base = getattr(vobj, name)
            cls = type("Mp" + name, (base,), {"lib": lib, "__slots__": (), "__module__": __name__})
            out[(flavor, n)] = cls
    for flavor in ("generic", "momentum"):
        for n in (2, 3, 4):
            cls = out[(flavor, n)]
            cls.ProjectionClass2D = out[(flavor, 2)]
            cls.ProjectionClass3D = out[(flavor, 3)]
            cls.ProjectionClass4D = out[(flavor, 4)]
            cls.GenericClass = out[("generic", n)]
            cls.MomentumClass = out[("momentum", n)]
    _CLASSES = out
    return out
