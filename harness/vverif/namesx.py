"""Execution of the name-set lattice of Names.tla against every constructor (C06)."""
from __future__ import annotations

import json
import warnings

import numpy

NAMES = ["x", "px", "y", "py", "rho", "pt", "phi", "z", "pz", "theta", "eta",
         "t", "E", "e", "energy", "tau", "M", "m", "mass"]
GENERIC = {"px": "x", "py": "y", "pt": "rho", "pz": "z", "E": "t", "e": "t", "energy": "t",
           "M": "tau", "m": "tau", "mass": "tau"}


def gen(n):
    return GENERIC.get(n, n)


VALUE_MODE = ["distinct"]      # "distinct": every name its own value; "zero": every value 0.0 (a falsy coordinate is a coordinate)


def value_of(name, k=0):
    if VALUE_MODE[0] == "zero":
        return 0.0
    return float(NAMES.index(name)) + 1.25 + 100.0 * k


def describe_obj(v):
    import vector
    from . import coords

    sig = coords.sig_of(v)
    fields = coords.field_names(sig)
    stored = list(v.azimuthal.elements)
    if len(sig) > 1:
        stored += list(v.longitudinal.elements)
    if len(sig) > 2:
        stored += list(v.temporal.elements)
    return {"dim": len(sig) + 1, "az": sig[0], "lon": sig[1] if len(sig) > 1 else "none",
            "tmp": sig[2] if len(sig) > 2 else "none",
            "flavor": "momentum" if isinstance(v, vector.Momentum) else "generic",
            "stored": dict(zip(fields, stored))}


def check_built(desc, S, cls, who, recs, exact_flavor=True, require_all=True, allow_extra_spelling=False):
    """Compare a built vector's description with Classify(S) (or with a valid subset of S)."""
    base = {"op": who, "names": sorted(S), "tag": "ctor"}
    if cls["ok"] == "T" and require_all:
        for key in ("dim", "az", "lon", "tmp"):
            if desc[key] != cls[key]:
                recs.append(dict(base, kind="wrong-" + key, got=desc[key], want=cls[key]))
        if exact_flavor and desc["flavor"] != cls["flavor"]:
            recs.append(dict(base, kind="wrong-flavor", got=desc["flavor"], want=cls["flavor"]))
    # stored values: every coordinate must hold, unchanged, the value supplied under one of its spellings
    for g, val in desc["stored"].items():
        sources = [n for n in S if gen(n) == g]
        if not sources:
            recs.append(dict(base, kind="coordinate-from-nowhere", got=g))
            continue
        vals = [value_of(n) for n in sources]
        v0 = float(numpy.asarray(val).ravel()[0])
        if v0 not in vals:
            recs.append(dict(base, kind="value-changed", field=g, got=v0, want=vals))
        elif len(sources) > 1 and not allow_extra_spelling:
            recs.append(dict(base, kind="duplicate-accepted", field=g, got=sorted(sources)))
    # the coordinate set actually built must itself be a documented set
    gs = set(desc["stored"])
    ok = ({"x", "y"} <= gs or {"rho", "phi"} <= gs) and not ({"x", "y"} <= gs and {"rho", "phi"} & gs)
    if not ok or len(gs) != desc["dim"]:
        recs.append(dict(base, kind="incomplete-set-built", got=sorted(gs)))


def run_names_case(nc):
    recs, calls = [], 0
    for mode in ("distinct", "zero"):
        VALUE_MODE[0] = mode
        try:
            r, c = run_names_case_mode(nc)
        finally:
            VALUE_MODE[0] = "distinct"
        for x in r:
            x["values"] = mode
        recs += r
        calls += c
    return recs, calls


def run_names_case_mode(nc):
    import awkward as ak
    import vector

    S = [n for n, flag in zip(NAMES, nc["names"]) if flag == "T"]
    cls = nc["cls"]
    recs, calls = [], 0
    kw = {n: value_of(n) for n in S}
    # ---- vector.obj
    calls += 1
    base = {"op": "obj", "names": sorted(S), "tag": "ctor"}
    try:
        v = vector.obj(**kw)
    except TypeError:
        if cls["ok"] == "T":
            recs.append(dict(base, kind="rejected-valid"))
    except Exception as ex:
        recs.append(dict(base, kind="exception", error=f"{type(ex).__name__}: {ex}"[:200]))
    else:
        if cls["ok"] != "T":
            recs.append(dict(base, kind="accepted-invalid", got=describe_obj(v)))
        else:
            check_built(describe_obj(v), S, cls, "obj", recs)
    # ---- object classes
    for flavor in ("generic", "momentum"):
        for dim in (2, 3, 4):
            cname = ("VectorObject" if flavor == "generic" else "MomentumObject") + f"{dim}D"
            klass = getattr(vector, cname)
            calls += 1
            base = {"op": cname, "names": sorted(S), "tag": "ctor"}
            must_accept = cls["ok"] == "T" and cls["dim"] == dim and (flavor == "momentum" or cls["flavor"] == "generic")
            must_reject = cls["ok"] != "T" or cls["dim"] != dim
            if not S:
                must_reject = True
            try:
                v = klass(**kw)
            except TypeError:
                if must_accept:
                    recs.append(dict(base, kind="rejected-valid"))
            except Exception as ex:
                recs.append(dict(base, kind="exception", error=f"{type(ex).__name__}: {ex}"[:200]))
            else:
                if must_reject:
                    recs.append(dict(base, kind="accepted-invalid"))
                else:
                    d = describe_obj(v)
                    check_built(d, S, cls, cname, recs, exact_flavor=False)
                    if d["flavor"] != flavor:
                        recs.append(dict(base, kind="wrong-flavor", got=d["flavor"], want=flavor))
    # ---- from_<system> class methods (positional values in the order of the system's name)
    if cls["ok"] == "T" and cls["flavor"] == "generic":
        order = {"xy": ["x", "y"], "rhophi": ["rho", "phi"]}[cls["az"]] + ([cls["lon"]] if cls["lon"] != "none" else []) + ([cls["tmp"]] if cls["tmp"] != "none" else [])
        for flavor in ("generic", "momentum"):
            klass = getattr(vector, ("VectorObject" if flavor == "generic" else "MomentumObject") + f"{cls['dim']}D")
            meth = "from_" + "".join(order)
            calls += 1
            base = {"op": f"{klass.__name__}.{meth}", "names": sorted(S), "tag": "ctor"}
            try:
                v = getattr(klass, meth)(*[value_of(n) for n in order])
            except Exception as ex:
                recs.append(dict(base, kind="exception", error=f"{type(ex).__name__}: {ex}"[:200]))
                continue
            d = describe_obj(v)
            check_built(d, S, cls, base["op"], recs, exact_flavor=False)
            if d["flavor"] != flavor or type(v) is not klass:
                recs.append(dict(base, kind="wrong-flavor", got=type(v).__name__, want=klass.__name__))
    # ---- array constructors
    if S:
        ctors = {
            "array": lambda: vector.array({n: numpy.array([value_of(n), value_of(n, 1)]) for n in S}),
            "zip": lambda: vector.zip({n: ak.Array([value_of(n), value_of(n, 1)]) for n in S}),
            "Array": lambda: vector.Array([{n: value_of(n, k) for n in S} for k in (0, 1)]),
        }
        if cls["ok"] == "T" and VALUE_MODE[0] == "distinct":
            # dict keys in reverse order, columns of different dtypes (int64 / float64 / float32 in turn): each stored
            # column must be the very column that was supplied under that name
            calls += 1
            base = {"op": "array:reversed-keys-mixed-dtypes", "names": sorted(S), "tag": "ctor"}
            dts = [numpy.int64, numpy.float64, numpy.float32]
            cols = {}
            for i, n in enumerate(reversed(S)):
                dt = dts[i % 3]
                vals = [NAMES.index(n) + 2, NAMES.index(n) + 102] if dt is numpy.int64 else [value_of(n) + 0.1, value_of(n, 1) + 0.1]
                cols[n] = numpy.array(vals, dtype=dt)
            try:
                v = vector.array(cols)
                plain = numpy.asarray(v)
                for n in S:
                    g = gen(n)
                    if plain[g].dtype != cols[n].dtype or not numpy.array_equal(plain[g], cols[n]):
                        recs.append(dict(base, kind="column-not-stored-as-supplied", field=n, got=f"{plain[g].dtype} {plain[g].tolist()}",
                                         want=f"{cols[n].dtype} {cols[n].tolist()}"))
            except Exception as ex:
                recs.append(dict(base, kind="exception", error=f"{type(ex).__name__}: {ex}"[:200]))
        for who, f in ctors.items():
            calls += 1
            base = {"op": who, "names": sorted(S), "tag": "ctor"}
            try:
                with warnings.catch_warnings():
                    warnings.simplefilter("ignore")
                    v = f()
            except (TypeError, ValueError):
                if cls["ok"] == "T":
                    recs.append(dict(base, kind="rejected-valid"))
                continue
            except Exception as ex:
                recs.append(dict(base, kind="exception", error=f"{type(ex).__name__}: {ex}"[:200]))
                continue
            if not isinstance(v, vector.Vector):
                # not interpreted as a vector at all (plain array): nothing was built
                if cls["ok"] == "T":
                    recs.append(dict(base, kind="rejected-valid", note="returned a non-vector"))
                continue
            if nc["subset"] != "T":
                recs.append(dict(base, kind="accepted-invalid", note="no valid subset of the names exists"))
                continue
            try:
                from . import coords

                sig = coords.sig_of(v)
                fields = coords.field_names(sig)
                stored = {}
                for g in fields:
                    col = getattr(v, g)
                    stored[g] = numpy.asarray(ak.to_numpy(col) if who != "array" else col)
                desc = {"dim": len(sig) + 1, "az": sig[0], "lon": sig[1] if len(sig) > 1 else "none",
                        "tmp": sig[2] if len(sig) > 2 else "none",
                        "flavor": "momentum" if isinstance(v, vector.Momentum) else "generic", "stored": stored}
            except Exception as ex:
                recs.append(dict(base, kind="exception", error=f"describe: {type(ex).__name__}: {ex}"[:200]))
                continue
            # a second spelling of a coordinate may be carried along as an extra field
            check_built(desc, S, cls, who, recs, require_all=(cls["ok"] == "T"), allow_extra_spelling=True)
    return recs, calls


TYPE_VALUES = {
    "int": (3, True), "float": (2.5, True), "numpy.float64": (numpy.float64(2.5), True),
    "numpy.int32": (numpy.int32(3), True), "numpy.float32": (numpy.float32(1.5), True),
    "bool": (True, False), "numpy.bool_": (numpy.bool_(True), False), "str": ("1.0", False), "None": (None, False),
    "complex": (1 + 2j, False), "list": ([1.0], False),
}
TYPE_SETS = [["x", "y"], ["rho", "phi"], ["pt", "phi", "eta"], ["x", "y", "z", "t"], ["px", "py", "pz", "E"],
             ["pt", "phi", "eta", "mass"], ["rho", "phi", "theta", "tau"]]


def run_value_types():
    """The value-type clause of C06 on a handful of valid sets, for vector.obj and the object classes."""
    import vector

    recs, calls = [], 0
    for S in TYPE_SETS:
        dim = len(S)
        mom = any(n in GENERIC for n in S)
        ctors = {"obj": vector.obj, ("MomentumObject" if mom else "VectorObject") + f"{dim}D":
                 getattr(vector, ("MomentumObject" if mom else "VectorObject") + f"{dim}D")}
        for tname, (val, ok) in TYPE_VALUES.items():
            for pos in range(len(S)):
                kw = {n: 1.5 + i for i, n in enumerate(S)}
                kw[S[pos]] = val
                for who, f in ctors.items():
                    calls += 1
                    base = {"op": who, "names": S, "tag": "valuetype", "valuetype": tname, "position": S[pos]}
                    try:
                        v = f(**kw)
                    except TypeError:
                        if ok:
                            recs.append(dict(base, kind="rejected-numeric-value"))
                    except Exception as ex:
                        recs.append(dict(base, kind="exception", error=f"{type(ex).__name__}: {ex}"[:200]))
                    else:
                        if not ok:
                            recs.append(dict(base, kind="accepted-non-numeric-value"))
                        else:
                            got = getattr(v, GENERIC.get(S[pos], S[pos]))
                            if got is not val and got != val:
                                recs.append(dict(base, kind="value-changed", got=repr(got), want=repr(val)))
    return recs, calls


def worker(chunk):
    out = {"records": [], "calls": 0, "cases": 0}
    for nc in chunk:
        try:
            r, c = run_names_case(nc)
        except Exception as ex:
            from . import common as _c
            r, c = [_c.crash_record("constructors", ex, names=[n for n, f in zip(NAMES, nc["names"]) if f == "T"])], 0
        out["records"] += r
        out["calls"] += c
        out["cases"] += 1
    return out


def replay(cases, procs=16):
    import multiprocessing as mp

    n = max(1, min(procs, len(cases)))
    chunks = [cases[i::n * 4] for i in range(n * 4)]
    chunks = [c for c in chunks if c]
    total = {"records": [], "calls": 0, "cases": 0}
    with mp.get_context("fork").Pool(n) as pool:
        for out in pool.imap_unordered(worker, chunks):
            total["records"] += out["records"]
            total["calls"] += out["calls"]
            total["cases"] += out["cases"]
    r, c = run_value_types()
    total["records"] += r
    total["calls"] += c
    total["valuetype_calls"] = c
    return total
