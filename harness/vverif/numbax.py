"""C07: numba-compiled code behaves like the interpreter.

Programs are the one-call cases of Cases.tla and the multi-call programs of Laws.tla rendered as
Python source; each is run interpreted and under numba.njit on identical float64 object
vectors (every coordinate system / flavor of the arguments, sampled in the quick tier) and the
results compared: same class (hence flavor, dimension), same coordinate system, values within
a few ulp of the natural scale, and both against the specification's expectation."""
from __future__ import annotations

import hashlib
import json
import math
import warnings

import mpmath
import numpy

from . import algebra, coords
from .algebra import rat, angle_of, result_kind

mpf = mpmath.mpf

# the numba-supported API exercised here (transcribed from the overload registrations of
# _numba_object.py): a member that no longer compiles is a violation
SUPPORTED = (algebra.UNARY_PROPS - algebra.MOMENTUM_ONLY) | {
    "abs", "square", "neg", "unit", "to_beta3", "scale", "divide", "rotateZ", "rotateX", "rotateY", "rotate_axis", "rotate_euler",
    "rotate_nautical", "rotate_quaternion", "transform2D", "transform3D", "transform4D", "boostX_beta", "boostY_beta", "boostZ_beta",
    "boostX_gamma", "boostY_gamma", "boostZ_gamma", "add", "subtract", "cross", "dot", "deltaphi", "deltaangle", "deltaeta", "deltaR",
    "deltaR2", "deltaRapidityPhi", "deltaRapidityPhi2", "boost_p4", "boost_beta3", "boostCM_of_p4", "boostCM_of_beta3", "boost",
    "boostCM_of", "equal", "not_equal", "isclose", "is_parallel", "is_antiparallel", "is_perpendicular", "is_timelike", "is_spacelike", "is_lightlike"}
TAU_SENSITIVE = {"tau", "abs", "gamma", "unit", "np_sqrt", "np_cbrt", "np_power"}
MOMENTUM_PROPS = {"Et": "transverse_energy", "Et2": "transverse_energy2", "Mt": "transverse_mass", "Mt2": "transverse_mass2"}


def hsh(*parts):
    return int(hashlib.sha256(json.dumps(parts, sort_keys=True, default=str).encode()).hexdigest()[:8], 16)


def expr_of(op, a, b, ps, p):
    """Python expression text for one call."""
    if op in algebra.UNARY_PROPS and op not in algebra.MOMENTUM_ONLY:
        return f"{a}.{op}"
    if op in MOMENTUM_PROPS:
        return f"{a}.{MOMENTUM_PROPS[op]}"
    if op == "abs":
        return f"abs({a})"
    if op == "square":
        return f"{a} ** 2"
    if op == "neg":
        return f"-{a}"
    if op in ("unit", "to_beta3"):
        return f"{a}.{op}()"
    if op == "scale":
        return f"{a}.scale({ps[0]})"
    if op == "divide":
        return f"{a} / {ps[0]}"
    if op in ("rotateZ", "rotateX", "rotateY"):
        return f"{a}.{op}({ps[0]})"
    if op == "rotate_axis":
        return f"{a}.rotate_axis({b}, {ps[0]})"
    if op == "rotate_euler":
        return f"{a}.rotate_euler({ps[0]}, {ps[1]}, {ps[2]}, {''.join(p[3])!r})"
    if op == "rotate_nautical":
        return f"{a}.rotate_nautical({ps[0]}, {ps[1]}, {ps[2]})"
    if op == "rotate_quaternion":
        return f"{a}.rotate_quaternion({ps[0]}, {ps[1]}, {ps[2]}, {ps[3]})"
    if op.startswith("transform"):
        return f"{a}.{op}({ps[0]})"
    if op.endswith("_beta"):
        return f"{a}.{op[:6]}(beta={ps[0]})"
    if op.endswith("_gamma"):
        return f"{a}.{op[:6]}(gamma={ps[0]})"
    if op in ("is_parallel", "is_antiparallel", "is_perpendicular"):
        return f"{a}.{op}({b}, {ps[0]})"
    if op in ("is_timelike", "is_spacelike", "is_lightlike"):
        return f"{a}.{op}({ps[0]})"
    return f"{a}.{op}({b})"


def param_values(op, p):
    """Concrete float parameters (the matrix of transformND as a dict)."""
    if op in ("scale", "divide") or op.endswith("_beta") or op.endswith("_gamma") or op.startswith("is_"):
        return [float(rat(p[0]))]
    if op in ("rotateZ", "rotateX", "rotateY", "rotate_axis"):
        return [float(angle_of(p[0], 0))]
    if op in ("rotate_euler", "rotate_nautical"):
        return [float(angle_of(p[k], 0)) for k in range(3)]
    if op == "rotate_quaternion":
        return [float(rat(q)) for q in p[0]]
    if op.startswith("transform"):
        return [algebra.matrix_of(p[0], float)]
    return []


def typed_dict(d):
    import numba

    out = numba.typed.Dict()
    for k, v in d.items():
        out[k] = v
    return out


def describe(x):
    import vector

    if isinstance(x, vector.Vector):
        sig = coords.sig_of(x)
        els = list(x.azimuthal.elements) + (list(x.longitudinal.elements) if len(sig) > 1 else []) + (list(x.temporal.elements) if len(sig) > 2 else [])
        return ("vec", type(x).__name__, tuple(sig), [float(e) for e in els])
    if isinstance(x, (bool, numpy.bool_)):
        return ("bool", bool(x))
    if isinstance(x, tuple):
        return ("tuple", [describe(y) for y in x])
    return ("num", float(x))


def same(d1, d2, scale):
    if d1[0] != d2[0]:
        return f"kind {d1[0]} vs {d2[0]}"
    if d1[0] == "tuple":
        if len(d1[1]) != len(d2[1]):
            return "tuple length"
        for k, (x, y) in enumerate(zip(d1[1], d2[1])):
            r = same(x, y, scale)
            if r:
                return f"[{k}] {r}"
        return None
    if d1[0] == "bool":
        return None if d1[1] == d2[1] else f"{d1[1]} vs {d2[1]}"
    tol = 1e-11 * scale

    def close(a, b):
        if math.isnan(a) or math.isnan(b):
            return math.isnan(a) and math.isnan(b)
        if math.isinf(a) or math.isinf(b):
            return a == b
        return abs(a - b) <= tol

    if d1[0] == "num":
        return None if close(d1[1], d2[1]) else f"{d1[1]!r} vs {d2[1]!r}"
    if d1[1] != d2[1]:
        return f"class {d1[1]} vs {d2[1]}"
    if d1[2] != d2[2]:
        return f"system {d1[2]} vs {d2[2]}"
    for k, (a, b) in enumerate(zip(d1[3], d2[3])):
        if not close(a, b):
            if k == 3 and len(d1[2]) == 3 and d1[2][2] == "tau" and max(abs(a), abs(b)) <= 1e-4 * math.sqrt(scale):
                continue     # tau = sign * sqrt|t^2 - p^2| next to the light cone: square-root of rounding
            return f"coordinates {d1[3]} vs {d2[3]}"
    return None


def detail_of(d):
    """Classify a difference: the recorded flavor finding is 'class VectorObjectND vs MomentumObjectND'."""
    import re

    m = re.search(r"class VectorObject(\d)D vs MomentumObject(\d)D", d)
    if m and m.group(1) == m.group(2):
        return "class-generic-vs-momentum"
    return "other"


def make_function(src):
    ns = {"numpy": numpy}
    exec(src, ns)
    return ns["f"]


def obj_of(vec, sig, flavor):
    import vector

    names = coords.field_names(sig)
    if flavor == "momentum":
        names = [coords.MOM_NAMES[n] for n in names]
    return vector.obj(**{nm: float(x) for nm, x in zip(names, coords.store(vec, sig))})


def run_job(job):
    """job: {op, sa, sb, fa, fb, cases}: compile once, evaluate on every case."""
    import numba
    import vector

    recs, calls = [], 0
    op, sa, sb, fa, fb = job["op"], tuple(job["sa"]), tuple(job["sb"]) if job["sb"] else None, job["fa"], job["fb"]
    c0 = job["cases"][0]
    np_ = len(param_values(op, c0["p"]))
    args = ["a"] + (["b"] if sb else []) + [f"p{k}" for k in range(np_)]
    src = f"def f({', '.join(args)}):\n    return {expr_of(op, 'a', 'b', [f'p{k}' for k in range(np_)], c0['p'])}\n"
    base = {"op": op, "sig": [sa, sb], "tag": "numba", "flavors": [fa, fb], "source": src,
            "mixed": "T" if (sb and fa != fb and op not in MOMENTUM_PROPS) else "F"}
    try:
        f = make_function(src)
        jf = numba.njit(f)
    except Exception as ex:
        recs.append(dict(base, kind="cannot-build", error=f"{type(ex).__name__}: {ex}"[:300]))
        return recs, 0, 0
    compiled = 0
    for case in job["cases"]:
        if case["exp"][0] == "bool" and case["exp"][1] in ("either", "tieT", "tieF"):
            continue             # an exact tie of a tolerance predicate: either answer is allowed
        if op in ("equal", "not_equal") and case["a"] == case["b"] and sa != sb:
            continue             # exact equality of one vector stored in two systems is decided by rounding
        if op in TAU_SENSITIVE and "a:lightlike" in algebra.strata(case) and tuple(sa) != coords.CANON[len(sa) + 1]:
            continue             # tau = sqrt(t^2 - mag^2) at its branch point through rounded storage: the sign of the rounding
                                 # residue (and with it tau, gamma = t / tau, unit = v / |tau|) differs between fused and unfused arithmetic
        va = algebra.vec_of(case["a"])
        vb = algebra.vec_of(case["b"]) if case["b"] else None
        if not coords.representable(va, sa) or (vb is not None and not coords.representable(vb, sb)):
            continue
        A = obj_of(va, sa, "momentum" if op in MOMENTUM_PROPS else fa)
        B = obj_of(vb, sb, fb) if vb is not None else None
        ps = param_values(op, case["p"])
        call_args = [A] + ([B] if B is not None else []) + ps
        with warnings.catch_warnings(), numpy.errstate(all="ignore"):
            warnings.simplefilter("ignore")
            try:
                want = f(*call_args)
            except ZeroDivisionError:
                continue         # Python floats raise on x / 0.0 where compiled code follows IEEE: not comparable
            except Exception as ex:
                recs.append(dict(base, kind="interpreter-raised", error=f"{type(ex).__name__}: {ex}"[:200], case=case))
                continue
            jargs = [typed_dict(x) if isinstance(x, dict) else x for x in call_args]
            try:
                got = jf(*jargs)
                compiled = 1
            except ZeroDivisionError:
                compiled = 1
                continue     # compiled code raises on x / 0.0 (numba's Python error model): singular input, not comparable
            except Exception as ex:
                recs.append(dict(base, kind="compiled-function-failed", error=f"{type(ex).__name__}: {str(ex)[:300]}", case=case))
                break
        calls += 1
        scale = (1 + float(algebra.maxabs(va))) * (1 + (float(algebra.maxabs(vb)) if vb else 0)) * float(algebra.param_scale(case))
        if vb is not None:
            scale *= float(algebra.boost_scale(case, vb))
        if result_kind(op) == "num":
            scale = scale * scale
        d = same(describe(got), describe(want), scale)
        if d:
            recs.append(dict(base, kind="compiled-differs-from-interpreted", got=d, case=case, detail=detail_of(d),
                             strata=algebra.strata(case)))
    return recs, calls, compiled


# ---------------------------------------------------------------- multi-call programs (Laws.tla)
def program_source(prog):
    """One function for a whole straight-line program; loads become arguments."""
    args, lines, outs = [], [], []
    pcount = 0
    pvals = []
    for ins in prog["code"]:
        d = ins["dst"]
        if ins["op"] == "load":
            args.append(f"r{d}")
            continue
        op = ins["op"]
        if op not in SUPPORTED and op not in MOMENTUM_PROPS:
            return None
        vals = param_values(op, ins["p"])
        if any(isinstance(v, dict) for v in vals):
            return None
        names = []
        for v in vals:
            names.append(f"q{pcount}")
            pvals.append(v)
            pcount += 1
        lines.append(f"    r{d} = {expr_of(op, 'r%d' % ins['a'], 'r%d' % ins['b'] if ins['b'] else None, names, ins['p'])}")
        outs.append(f"r{d}")
    if not outs:
        return None
    allargs = args + [f"q{k}" for k in range(pcount)]
    src = f"def f({', '.join(allargs)}):\n" + "\n".join(lines) + f"\n    return ({', '.join(outs)},)\n"
    return src, args, pvals


def run_program(prog, variant):
    import numba

    recs = []
    built = program_source(prog)
    if built is None:
        return recs, 0, 0
    src, args, pvals = built
    base = {"op": "program:" + prog["name"], "tag": "numba-program", "source": src}
    loads = {ins["dst"]: ins for ins in prog["code"] if ins["op"] == "load"}
    objs = []
    sigs = []
    fls = set()
    for name in args:
        ins = loads[int(name[1:])]
        vec = [rat(c) for c in ins["p"][0]]
        ss = [s for s in coords.signatures(len(vec)) if coords.representable(vec, s)]
        sig = ss[hsh(prog["name"], prog["code"], name, variant) % len(ss)]
        fl = "momentum" if hsh(prog["name"], name, "fl", variant) % 2 else "generic"
        objs.append(obj_of(vec, sig, fl))
        sigs.append(sig)
        fls.add(fl)
    base["sig"] = [sigs, None]
    base["mixed"] = "T" if len(fls) == 2 else "F"
    try:
        f = make_function(src)
        with warnings.catch_warnings(), numpy.errstate(all="ignore"):
            warnings.simplefilter("ignore")
            want = f(*objs, *pvals)
    except ZeroDivisionError:
        return recs, 0, 0
    except Exception as ex:
        recs.append(dict(base, kind="interpreter-raised", error=f"{type(ex).__name__}: {ex}"[:200]))
        return recs, 0, 0
    try:
        with warnings.catch_warnings(), numpy.errstate(all="ignore"):
            warnings.simplefilter("ignore")
            got = numba.njit(f)(*objs, *pvals)
    except ZeroDivisionError:
        return recs, 1, 1
    except Exception as ex:
        recs.append(dict(base, kind="compiled-function-failed", error=f"{type(ex).__name__}: {str(ex)[:300]}"))
        return recs, 1, 0
    scale = 1.0
    for o in objs:
        for c in describe(o)[3]:
            scale = max(scale, abs(c))
    for d_ in describe(want)[1]:
        if d_[0] == "vec":
            for c in d_[3]:
                if math.isfinite(c):
                    scale = max(scale, abs(c))
    d = same(describe(got), describe(want), scale * scale * 100)
    if d:
        recs.append(dict(base, kind="compiled-differs-from-interpreted", got=d, detail=detail_of(d)))
    return recs, 1, 1


# ---------------------------------------------------------------- Awkward arrays inside compiled functions
AK_TEMPLATES = {
    "sum-property": "def f(arr):\n    s = 0.0\n    for lst in arr:\n        for v in lst:\n            s += v.{prop}\n    return s\n",
    "pick-element": "def f(arr):\n    return arr[{i}][{j}]\n",
    "method-on-element": "def f(arr):\n    return arr[{i}][{j}].{method}\n",
    "pairwise": "def f(arr):\n    s = 0.0\n    for lst in arr:\n        for i in range(len(lst)):\n            for j in range(i + 1, len(lst)):\n                s += lst[i].{binop}(lst[j])\n    return s\n",
}


def run_awkward(sig, flavor):
    import awkward as ak
    import numba
    import vector

    recs, calls = [], 0
    n = len(sig) + 1
    pts = [(3.0, 4.0, 12.0, 85.0), (-9.0, 12.0, -20.0, 65.0), (1.0, 2.0, 2.0, 7.0), (5.0, 1.0, -12.0, 14.0)]
    names = coords.field_names(sig)
    if flavor == "momentum":
        names = [coords.MOM_NAMES[x] for x in names]
    rows = [dict(zip(names, [float(x) for x in coords.store([mpf(c) for c in p[:n]], sig)])) for p in pts]
    arr = vector.Array([[rows[0], rows[1]], [], [rows[2], rows[3], rows[0]]])
    props = ["rho", "phi"] + (["eta", "mag"] if n > 2 else []) + (["tau", "t", "rapidity"] if n > 3 else [])
    jobs = [("sum-property", {"prop": p}) for p in props]
    jobs += [("pick-element", {"i": 2, "j": 1}), ("pick-element", {"i": 0, "j": 0})]
    jobs += [("method-on-element", {"i": 2, "j": 0, "method": m}) for m in (["scale(2.0)", "rotateZ(0.3)", "unit()"] + (["to_beta3()", "boostZ(beta=0.25)"] if n > 3 else []))]
    jobs += [("pairwise", {"binop": b}) for b in (["dot", "deltaphi"] + (["deltaR", "deltaangle"] if n > 2 else []))]
    for name, kw in jobs:
        src = AK_TEMPLATES[name].format(**kw)
        base = {"op": "awkward:" + name, "sig": [sig, None], "tag": "numba-awkward", "flavor": flavor, "source": src}
        try:
            f = make_function(src)
            with warnings.catch_warnings(), numpy.errstate(all="ignore"):
                warnings.simplefilter("ignore")
                want = f(arr)
                got = numba.njit(f)(arr)
            calls += 1
        except Exception as ex:
            recs.append(dict(base, kind="compiled-function-failed", error=f"{type(ex).__name__}: {str(ex)[:300]}"))
            continue
        # the interpreter returns an Awkward record for arr[i][j]; compiled code returns the equivalent object
        def norm(x):
            if isinstance(x, ak.Record):
                fl = "momentum" if isinstance(x, vector.Momentum) else "generic"
                s = coords.sig_of(x)
                els = list(x.azimuthal.elements) + (list(x.longitudinal.elements) if len(s) > 1 else []) + (list(x.temporal.elements) if len(s) > 2 else [])
                return ("vecish", fl, vector.dim(x), tuple(s), [float(e) for e in els])
            if isinstance(x, vector.Vector):
                d = describe(x)
                return ("vecish", "momentum" if isinstance(x, vector.Momentum) else "generic", vector.dim(x), d[2], d[3])
            return ("num", float(x))

        a, b = norm(got), norm(want)
        ok = a[:-1] == b[:-1] and (all(abs(x - y) <= 1e-9 * (1 + abs(y)) for x, y in zip(a[-1], b[-1])) if a[0] == "vecish" else abs(a[1] - b[1]) <= 1e-9 * (1 + abs(b[1])))
        if not ok:
            recs.append(dict(base, kind="compiled-differs-from-interpreted", got=repr(a)[:200], want=repr(b)[:200]))
    return recs, calls


def worker(args):
    kind, items = args
    out = {"records": [], "calls": 0, "compiled": 0}
    import vector

    vector.register_numba()
    for it in items:
        if kind == "job":
            r, c, k = run_job(it)
        elif kind == "prog":
            r, c, k = run_program(*it)
        elif kind == "extra":
            from . import numbax_extra

            r, c = numbax_extra.run_item(it)
            k = 1
        else:
            r, c = run_awkward(*it)
            k = c
        out["records"] += r
        out["calls"] += c
        out["compiled"] += k
    return out


def replay_items(xitems, procs=16):
    """Run explicit numbax_extra items in a spawn pool."""
    import multiprocessing as mp

    total = {"records": [], "calls": 0, "compiled": 0, "extra": len(xitems)}
    with mp.get_context("spawn").Pool(min(procs, max(1, len(xitems)))) as pool:
        for out in pool.imap_unordered(worker, [("extra", [x]) for x in xitems], chunksize=1):
            total["records"] += out["records"]
            total["calls"] += out["calls"]
            total["compiled"] += out["compiled"]
    return total


def plan_jobs(cases, tier, seed=0):
    """Group cases by operation and pick signature/flavor combinations to compile."""
    by = {}
    for c in cases:
        if c["op"] in SUPPORTED or c["op"] in MOMENTUM_PROPS:
            by.setdefault((c["op"], len(c["a"]), len(c["b"]) if c["b"] else 0, json.dumps(c["p"][3]) if c["op"] == "rotate_euler" else ""), []).append(c)
    jobs = []
    for (op, na, nb, fixed), cs in sorted(by.items()):
        sas = coords.signatures(na)
        sbs = coords.signatures(nb) if nb else [None]
        combos = [(a, b) for a in sas for b in sbs]
        k = (4 if nb else 2) if tier == "quick" else min(len(combos), 24)      # two-operand lookups are keyed by both operands' types
        if op == "rotate_euler" and tier == "quick":
            k = 1
        h = hsh(op, na, nb, fixed, seed)
        chosen = [combos[(h + 7 * j) % len(combos)] for j in range(k)]
        for j, (sa, sb) in enumerate(chosen):
            fa = "momentum" if (h + j) % 2 else "generic"
            fb = "generic" if (h + j) % 3 else "momentum"
            jobs.append({"op": op, "sa": sa, "sb": sb, "fa": fa, "fb": fb, "cases": cs[: 12 if tier == "quick" else 40]})
    return jobs


def replay(cases, progs, tier="quick", seed=0, procs=16, only_programs=False, only_jobs=False):
    import multiprocessing as mp

    jobs = plan_jobs(cases, tier, seed) if not only_programs else []
    nprog = 48 if tier == "quick" else 400
    step = max(1, len(progs) // nprog)
    pitems = [(p, seed) for p in (progs if only_programs else progs[::step][:nprog])]
    aitems = [(s, fl) for n in (2, 3, 4) for s in coords.signatures(n) for fl in ("generic", "momentum")]
    if tier == "quick":
        aitems = aitems[::5]
    if only_programs or only_jobs:
        aitems = []
    if only_jobs:
        pitems = []
    from . import numbax_extra

    xitems = [] if (only_programs or only_jobs) else numbax_extra.plan(tier, seed)
    work = [("extra", [x]) for x in xitems if x[0] == "unary"] + [("job", [j]) for j in jobs] + [("extra", [x]) for x in xitems if x[0] != "unary"] + [("prog", pitems[i::16]) for i in range(16) if pitems[i::16]] + [("ak", [a]) for a in aitems]
    total = {"records": [], "calls": 0, "compiled": 0, "jobs": len(jobs), "programs": len(pitems), "awkward": len(aitems), "extra": len(xitems)}
    with mp.get_context("spawn").Pool(procs) as pool:
        for out in pool.imap_unordered(worker, work, chunksize=1):
            total["records"] += out["records"]
            total["calls"] += out["calls"]
            total["compiled"] += out["compiled"]
    return total
