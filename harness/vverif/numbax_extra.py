"""C07, second family: everything the numba extension registers besides the computing methods -
operators and ufunc spellings, conversions between coordinate systems and dimensions,
partial operations, momentum synonyms, comparisons, and the constructors (vector.obj with
keywords, the object classes with coordinate objects).  Many expressions are packed into one
compiled function per (signature, flavor) so that the compile time is paid once; if the packed
function does not compile the expressions are compiled one by one to name the culprit."""
from __future__ import annotations

import math
import warnings

import mpmath
import numpy

from . import coords
from .numbax import describe, same, make_function, obj_of, detail_of

mpf = mpmath.mpf

POINTS = [(3.0, -4.0, 12.0, 15.0), (-1.5, 2.5, -0.75, 9.0), (2.0, 1.0, 2.0, 2.5), (-0.5, -0.25, 4.0, 4.5)]
SYSTEMS = {2: ["xy", "rhophi"],
           3: [a + l for a in ("xy", "rhophi") for l in ("z", "theta", "eta")],
           4: [a + l + t for a in ("xy", "rhophi") for l in ("z", "theta", "eta") for t in ("t", "tau")]}

GENERIC_UNARY = {
    2: ["+a", "bool(a)", "numpy.absolute(a)", "numpy.square(a)", "numpy.sqrt(a)", "numpy.cbrt(a)", "numpy.power(a, 3)", "a ** 3",
        "a ** 0.5", "numpy.negative(a)", "numpy.positive(a)", "a.neg2D", "a.scale2D(1.5)", "a * 2.5", "2.5 * a",
        "numpy.multiply(a, 2.5)", "numpy.multiply(2.5, a)", "numpy.true_divide(a, 2.5)", "a / 4", "a.to_Vector2D()", "a.to_Vector3D()",
        "a.to_Vector4D()", "a.azimuthal", "a.x + a.y", "a.rho2"],
    3: ["a.neg3D", "a.scale3D(1.5)", "a.longitudinal", "a.mag2", "a.costheta", "a.cottheta"],
    4: ["a.neg4D", "a.scale4D(1.5)", "a.temporal", "a.t2", "a.tau2", "a.beta", "a.gamma", "a.rapidity"],
}
MOMENTUM_UNARY = {
    2: ["a.px", "a.py", "a.pt", "a.pt2"],
    3: ["a.pz", "a.pseudorapidity", "a.p", "a.p2"],
    4: ["a.E", "a.e", "a.energy", "a.E2", "a.e2", "a.energy2", "a.M", "a.m", "a.mass", "a.M2", "a.m2", "a.mass2",
        "a.transverse_energy", "a.Et", "a.transverse_energy2", "a.Et2", "a.transverse_mass", "a.Mt", "a.transverse_mass2", "a.Mt2"],
}
BINARY = {
    2: ["a + b", "a - b", "a == b", "a != b", "a @ b", "numpy.add(a, b)", "numpy.subtract(a, b)", "numpy.matmul(a, b)",
        "a.equal(b)", "a.not_equal(b)", "a.isclose(b)", "a.isclose(b, 0.5, 0.25)", "a.isclose(b, 1e-3, 1e-6)", "a.isclose(b, 1e-6, 1e-3)",
        "a.isclose(b, 1e-3, 1e-6, False)", "a.isclose(b, rtol=1e-2, atol=1e-7)", "a.isclose(a)", "a.equal(a)", "a == a", "a != a"],
}

# expressions the pinned tree does not compile (found by running this module once on the pinned
# tree and reading the registrations): not part of the numba-supported API, nothing is claimed
UNSUPPORTED: set = {"a.e", "a.e2", "a.m", "a.m2"}     # the lower-case one-letter synonyms have no overload_attribute


def exprs_for(n, flavor, conv=True):
    ex = []
    for k in range(2, n + 1):
        ex += GENERIC_UNARY[k]
        if flavor == "momentum":
            ex += MOMENTUM_UNARY[k]
    if conv:
        for k in (2, 3, 4):
            for s in SYSTEMS[k]:
                ex.append(f"a.to_{s}()")
    return [e for e in ex if e not in UNSUPPORTED]


def pack(exprs, args):
    body = ", ".join(exprs)
    return f"def f({', '.join(args)}):\n    return ({body},)\n"


def compare_packed(base, exprs, args, call_args, scale, recs):
    """Compile the packed function; on failure bisect down to single expressions."""
    import numba

    def attempt(es):
        src = pack(es, args)
        f = make_function(src)
        with warnings.catch_warnings(), numpy.errstate(all="ignore"):
            warnings.simplefilter("ignore")
            want = [f(*ca) for ca in call_args]
            jf = numba.njit(f)
            got = [jf(*ca) for ca in call_args]
        return want, got

    def interp_ok(es):
        f = make_function(pack(es, args))
        with warnings.catch_warnings(), numpy.errstate(all="ignore"):
            warnings.simplefilter("ignore")
            for ca in call_args:
                f(*ca)

    calls = 0
    todo = [list(exprs)]
    while todo:
        es = todo.pop()
        try:
            want, got = attempt(es)
        except Exception as ex:
            if len(es) == 1:
                if isinstance(ex, ZeroDivisionError):
                    continue      # x / 0.0 raises under numba's Python error model: singular operand (e.g. a - a), not comparable
                try:
                    interp_ok(es)
                except Exception:
                    continue      # the interpreter itself rejects the expression for this operand: nothing to compare
                recs.append(dict(base, kind="compiled-function-failed", expr=es[0], error=f"{type(ex).__name__}: {str(ex)[:300]}"))
                continue
            h = len(es) // 2
            todo += [es[:h], es[h:]]
            continue
        for w, g, ca in zip(want, got, call_args):
            for e, wi, gi in zip(es, w, g):
                calls += 1
                d = same(describe_any(gi), describe_any(wi), scale)
                if d:
                    recs.append(dict(base, kind="compiled-differs-from-interpreted", expr=e, got=d, detail=detail_of(d),
                                     operands=[repr(x)[:120] for x in ca]))
    return calls


def describe_any(x):
    import vector

    if isinstance(x, vector.Vector) or isinstance(x, (bool, numpy.bool_, tuple)):
        return describe(x)
    if isinstance(x, complex):      # Python's float ** 0.5 of a negative number: outside the real domain, NaN when compiled
        return ("num", float("nan"))
    if hasattr(x, "elements"):      # a coordinate object
        return ("tuple", [("num", float(e)) for e in x.elements] + [("num", float(len(type(x).__name__)))])
    return describe(x)


def run_conversions(sig, flavor):
    """Only the conversions (to_<system>, to_VectorND) of one signature / flavor, compiled (C04's numba pass)."""
    recs = []
    n = len(sig) + 1
    objs = [obj_of([mpf(c) for c in p[:n]], sig, flavor) for p in POINTS if coords.representable([mpf(c) for c in p[:n]], sig)]
    exprs = ["a.to_Vector2D()", "a.to_Vector3D()", "a.to_Vector4D()"] + [f"a.to_{s}()" for k in (2, 3, 4) for s in SYSTEMS[k]]
    base = {"op": "extra:conversion", "sig": [sig, None], "tag": "numba-extra", "flavors": [flavor, None], "mixed": "F"}
    calls = compare_packed(base, exprs, ["a"], [(o,) for o in objs], 1e4, recs)
    return recs, calls


def run_momattr(sig):
    """Only the momentum synonyms of one signature, compiled (C14's numba pass): each next to its geometric name."""
    recs = []
    n = len(sig) + 1
    objs = [obj_of([mpf(c) for c in p[:n]], sig, "momentum") for p in POINTS if coords.representable([mpf(c) for c in p[:n]], sig)]
    GEO = {"px": "x", "py": "y", "pt": "rho", "pt2": "rho2", "pz": "z", "pseudorapidity": "eta", "p": "mag", "p2": "mag2", "E": "t", "e": "t",
           "energy": "t", "E2": "t2", "e2": "t2", "energy2": "t2", "M": "tau", "m": "tau", "mass": "tau", "M2": "tau2", "m2": "tau2", "mass2": "tau2",
           "transverse_energy": "Et", "transverse_energy2": "Et2", "transverse_mass": "Mt", "transverse_mass2": "Mt2"}
    exprs = []
    for k in range(2, n + 1):
        for e in MOMENTUM_UNARY[k]:
            if e in UNSUPPORTED:
                continue
            nm = e[2:]
            exprs.append(e)
            if nm in GEO:
                exprs.append(f"{e} - a.{GEO[nm]}")      # exactly zero: a synonym is the same number
    base = {"op": "extra:momentum-synonyms", "sig": [sig, None], "tag": "numba-extra", "flavors": ["momentum", None], "mixed": "F"}
    calls = compare_packed(base, exprs, ["a"], [(o,) for o in objs], 1e4, recs)
    return recs, calls


def run_unary(sig, flavor):
    import vector

    recs = []
    n = len(sig) + 1
    objs = []
    for p in POINTS:
        vec = [mpf(c) for c in p[:n]]
        if coords.representable(vec, sig):
            objs.append(obj_of(vec, sig, flavor))
    base = {"op": "extra:unary", "sig": [sig, None], "tag": "numba-extra", "flavors": [flavor, None], "mixed": "F"}
    calls = compare_packed(base, exprs_for(n, flavor), ["a"], [(o,) for o in objs], 1e4, recs)
    return recs, calls


def run_binary(sa, sb, fa, fb):
    recs = []
    na, nb = len(sa) + 1, len(sb) + 1
    pairs = []
    for i, p in enumerate(POINTS):
        for q in (POINTS[(i + 1) % len(POINTS)], p):
            va, vb = [mpf(c) for c in p[:na]], [mpf(c) for c in q[:nb]]
            if coords.representable(va, sa) and coords.representable(vb, sb):
                pairs.append((obj_of(va, sa, fa), obj_of(vb, sb, fb)))
    # near-equal pairs of large magnitude: relative and absolute tolerances decide differently
    for p in POINTS:
        va = [mpf(c) * 100 for c in p[:na]]
        vb = [mpf(c) * 100 * (1 + mpf(10) ** -4) for c in p[:nb]]
        if coords.representable(va, sa) and coords.representable(vb, sb):
            pairs.append((obj_of(va, sa, fa), obj_of(vb, sb, fb)))
    exprs = [e for e in BINARY[2] if e not in UNSUPPORTED]
    if na != nb:
        # comparisons between different dimensions are rejected by the library; arithmetic embeds
        exprs = [e for e in exprs if not any(w in e for w in ("==", "!=", "equal", "isclose")) or "b" not in e.replace("bool", "")]
    base = {"op": "extra:binary", "sig": [sa, sb], "tag": "numba-extra", "flavors": [fa, fb], "mixed": "T" if fa != fb else "F"}
    calls = compare_packed(base, exprs, ["a", "b"], pairs, 1e9, recs)
    return recs, calls


AZ = {"xy": ("x", "y"), "rhophi": ("rho", "phi")}
MOMK = {"x": "px", "y": "py", "rho": "pt", "phi": "phi", "z": ["pz"], "theta": ["theta"], "eta": ["eta"],
        "t": ["E", "e", "energy"], "tau": ["M", "m", "mass"]}
COORDCLASS = {"xy": "AzimuthalObjectXY", "rhophi": "AzimuthalObjectRhoPhi", "z": "LongitudinalObjectZ", "theta": "LongitudinalObjectTheta",
              "eta": "LongitudinalObjectEta", "t": "TemporalObjectT", "tau": "TemporalObjectTau"}


def constructor_exprs(sig):
    """Every spelling of vector.obj for the signature + the class constructors fed coordinate objects."""
    az = AZ[sig[0]]
    azs = [list(az)]
    if sig[0] == "xy":
        azs += [["px", "py"], ["x", "py"], ["px", "y"]]
    else:
        azs += [["pt", "phi"]]
    lons = [[]]
    if len(sig) > 1:
        lons = [[sig[1]]] + ([["pz"]] if sig[1] == "z" else [])
    tmps = [[]]
    if len(sig) > 2:
        tmps = [[sig[2]]] + [[k] for k in MOMK[sig[2]]]
    out = []
    for a in azs:
        for l in lons:
            for t in tmps:
                names = a + l + t
                out.append("vector.obj(" + ", ".join(f"{nm}=p{i}" for i, nm in enumerate(names)) + ")")
    n = len(sig) + 1
    azc = f"{COORDCLASS[sig[0]]}(p0, p1)"
    parts = [azc]
    if n > 2:
        parts.append(f"{COORDCLASS[sig[1]]}(p2)")
    if n > 3:
        parts.append(f"{COORDCLASS[sig[2]]}(p3)")
    out.append(f"VectorObject{n}D({', '.join(parts)})")
    out.append(f"MomentumObject{n}D({', '.join(parts)})")
    return out


def run_constructors(sig):
    import numba
    import vector
    from vector.backends import object as vo

    recs = []
    n = len(sig) + 1
    args = [f"p{i}" for i in range(n)]
    vals = []
    for p in POINTS:
        vec = [mpf(c) for c in p[:n]]
        if coords.representable(vec, sig):
            vals.append(tuple(float(x) for x in coords.store(vec, sig)))
    vals.append(tuple(int(round(v)) for v in vals[0]))     # integer arguments
    base = {"op": "extra:constructor", "sig": [sig, None], "tag": "numba-extra", "flavors": [None, None], "mixed": "F"}
    ns_extra = {"vector": vector}
    for name in dir(vo):
        if name.endswith(("XY", "RhoPhi", "ObjectZ", "Theta", "Eta", "ObjectT", "Tau")) or name.startswith(("VectorObject", "MomentumObject")):
            ns_extra[name] = getattr(vo, name)
    calls = 0
    for e in constructor_exprs(sig):
        if e in UNSUPPORTED:
            continue
        src = f"def f({', '.join(args)}):\n    return {e}\n"
        ns = dict(ns_extra, numpy=numpy)
        exec(src, ns)
        f = ns["f"]
        try:
            jf = numba.njit(f)
            for v in vals:
                want, got = f(*v), jf(*v)
                calls += 1
                d = same(describe(got), describe(want), 1e3)
                if d:
                    recs.append(dict(base, kind="compiled-differs-from-interpreted", expr=e, got=d, detail=detail_of(d), operands=list(v)))
        except Exception as ex:
            recs.append(dict(base, kind="compiled-function-failed", expr=e, error=f"{type(ex).__name__}: {str(ex)[:300]}"))
    return recs, calls


def run_item(item):
    kind = item[0]
    if kind == "unary":
        return run_unary(tuple(item[1]), item[2])
    if kind == "binary":
        return run_binary(tuple(item[1]), tuple(item[2]), item[3], item[4])
    if kind == "conv":
        return run_conversions(tuple(item[1]), item[2])
    if kind == "momattr":
        return run_momattr(tuple(item[1]))
    return run_constructors(tuple(item[1]))


def plan(tier, seed=0):
    items = []
    sigs = [s for n in (2, 3, 4) for s in coords.signatures(n)]
    for i, s in enumerate(sigs):
        if tier == "quick":
            items.append(("unary", s, "momentum" if (i + seed) % 2 else "generic"))
        else:
            items += [("unary", s, "generic"), ("unary", s, "momentum")]
        items.append(("ctor", s))
    pairs = [(a, b) for a in sigs for b in sigs]
    k = 20 if tier == "quick" else 120
    step = max(1, len(pairs) // k)
    for j, (a, b) in enumerate(pairs[seed % step::step][:k]):
        items.append(("binary", a, b, "momentum" if j % 2 else "generic", "generic" if j % 3 else "momentum"))
    # same-signature pairs of both flavors: comparisons are defined there
    for j, s in enumerate(sigs):
        if tier != "quick" or (j + seed) % 3 == 0:
            items.append(("binary", s, s, "generic" if j % 2 else "momentum", "generic" if j % 2 else "momentum"))
    return items
