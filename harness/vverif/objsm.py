"""C15: replay of ObjectSM.tla histories into real object vectors, and recording of
traces from real objects for validation by ObjectSMTrace.tla."""
from __future__ import annotations

import hashlib
import json

import mpmath

from . import coords, terms
from .algebra import MP_TOL, F64_TOL, close_num, _finite
from .coords import project

mpf = mpmath.mpf

SYN = {"x": ["x", "px"], "y": ["y", "py"], "rho": ["rho", "pt"], "phi": ["phi"], "z": ["z", "pz"], "theta": ["theta"],
       "eta": ["eta"], "t": ["t", "E", "e", "energy"], "tau": ["tau", "M", "m", "mass"]}


def hsh(*parts):
    return int(hashlib.sha256(json.dumps(parts, sort_keys=True, default=str).encode()).hexdigest()[:8], 16)


def angle(cs):
    return mpmath.atan2(terms.ev(cs[1]), terms.ev(cs[0]))


def concrete_value(name, v):
    """Concrete number for a specification value of coordinate `name`."""
    if name in ("phi", "theta"):
        return angle(v)
    if name == "eta":
        return mpmath.log(terms.ev(v))
    return terms.ev(v)


def spec_state(o):
    """(sig, stored mpf list) of a specification object record."""
    sig = [o["az"][0]]
    st = []
    if o["az"][0] == "xy":
        st += [terms.ev(o["az"][1]), terms.ev(o["az"][2])]
    else:
        st += [terms.ev(o["az"][1]), angle(o["az"][2])]
    if o["lon"][0] != "none":
        sig.append(o["lon"][0])
        st.append(concrete_value(o["lon"][0], o["lon"][1]))
    if o["tmp"][0] != "none":
        sig.append(o["tmp"][0])
        st.append(terms.ev(o["tmp"][1]))
    return tuple(sig), st


def build_from_spec(o, classes, number):
    from vector.backends import object as vobj

    sig, st = spec_state(o)
    st = [number(c) for c in st]
    az = vobj.AzimuthalObjectXY(st[0], st[1]) if sig[0] == "xy" else vobj.AzimuthalObjectRhoPhi(st[0], st[1])
    n = len(sig) + 1
    cls = classes[(o["flavor"], n)]
    if n == 2:
        return cls(azimuthal=az)
    lon = {"z": vobj.LongitudinalObjectZ, "theta": vobj.LongitudinalObjectTheta, "eta": vobj.LongitudinalObjectEta}[sig[1]](st[2])
    if n == 3:
        return cls(azimuthal=az, longitudinal=lon)
    tmp = {"t": vobj.TemporalObjectT, "tau": vobj.TemporalObjectTau}[sig[2]](st[3])
    return cls(azimuthal=az, longitudinal=lon, temporal=tmp)


def groups(v):
    import vector

    g = {"az": v.azimuthal}
    if isinstance(v, (vector.Vector3D, vector.Vector4D)):
        g["lon"] = v.longitudinal
    if isinstance(v, vector.Vector4D):
        g["tmp"] = v.temporal
    return g


def group_equal(a, b):
    return type(a) is type(b) and all((x == y) or (x != x and y != y) for x, y in zip(a.elements, b.elements))


def clone(v):
    g = groups(v)
    kw = {"azimuthal": g["az"]}
    if "lon" in g:
        kw["longitudinal"] = g["lon"]
    if "tmp" in g:
        kw["temporal"] = g["tmp"]
    return type(v)(**kw)


GROUP_OF = {"x": "az", "y": "az", "rho": "az", "phi": "az", "z": "lon", "theta": "lon", "eta": "lon", "t": "tmp", "tau": "tmp"}
PARTNER = {"x": "y", "y": "x", "rho": "phi", "phi": "rho"}


def close_state(v, spec_o, eps):
    """The real object denotes the specification's object and is stored in the same system."""
    sig, st, cart = project(v)
    ssig, sst = spec_state(spec_o)
    if tuple(sig) != tuple(ssig):
        return f"system {sig} but specification says {ssig}"
    want = coords.denote(sst, ssig)
    for i, (a, b) in enumerate(zip(cart, want)):
        if not close_num(a, b, eps):
            # time through tau storage is sqrt-conditioned: compare the stored tau instead
            if i == 3 and sig[2] == "tau" and close_num(st[3], sst[3], eps * 10 ** 6):
                continue
            return f"component {i}: {mpmath.nstr(a, 25)} but specification says {mpmath.nstr(b, 25)}"
    return None


def run_history(h, classes, number, mode, variant=0):
    import numpy

    tol = MP_TOL if mode == "mp" else F64_TOL
    recs, calls = [], 0
    v = build_from_spec(h["init"], classes, number)
    flavor = h["init"]["flavor"]
    ident = id(v)
    klass = type(v)
    scale = mpf(1)
    for c in project(v)[2]:
        if _finite(c):
            scale = max(scale, abs(c))
    for k, step in enumerate(h["steps"]):
        base = {"op": step["kind"] + (":" + step["name"] if step["name"] else ""), "tag": "objsm", "step": k, "mode": mode,
                "sig": [project(v)[0], None], "flavor": flavor}
        before = groups(v)
        before_clone = clone(v)
        kind = step["kind"]
        for c in project(v)[2]:
            if _finite(c):
                scale = max(scale, abs(c))
        eps = tol * scale * scale * 64
        try:
            if kind == "set":
                name = step["name"]
                spell = SYN[name] if flavor == "momentum" else SYN[name][:1]
                attr = spell[hsh(h["init"], k, variant) % len(spell)]
                val = number(concrete_value(name, step["arg"]))
                partner = PARTNER.get(name)
                pval = coords.to_mpf(getattr(v, partner)) if partner else None
                setattr(v, attr, val)
                calls += 1
                got = getattr(v, attr)
                if not (got == val):
                    recs.append(dict(base, kind="assigned-value-not-read-back", attr=attr, got=repr(got), want=repr(val)))
                if attr != name and not (getattr(v, name) == val):
                    recs.append(dict(base, kind="assigned-value-not-read-back", attr=name, got=repr(getattr(v, name)), want=repr(val)))
                after = groups(v)
                for g in after:
                    if g != GROUP_OF[name] and not group_equal(after[g], before[g]):
                        recs.append(dict(base, kind="other-group-changed", group=g, got=repr(after[g]), want=repr(before[g])))
                if partner:
                    p2 = coords.to_mpf(getattr(v, partner))
                    ang = partner == "phi"
                    if _finite(pval) and not close_num(p2, pval, eps, angle=ang):
                        recs.append(dict(base, kind="partner-changed", partner=partner, got=mpmath.nstr(p2, 25), want=mpmath.nstr(pval, 25)))
            elif kind in ("iadd", "isub", "imul", "idiv"):
                if kind in ("iadd", "isub"):
                    wv = [terms.ev(c) for c in step["arg"]]
                    sigs = [s for s in coords.signatures(len(wv)) if coords.representable(wv, s)]
                    ws = sigs[hsh(h["init"], k, "w", variant) % len(sigs)]
                    wfl = "momentum" if hsh(h["init"], k, "wf", variant) % 2 else "generic"
                    w = coords.build(classes, wfl, wv, ws, number)
                    twin = before_clone.add(w) if kind == "iadd" else before_clone.subtract(w)
                    use_out = hsh(h["init"], k, "out", variant) % 4 == 0      # the ufunc spelling of the in-place operator
                    import numpy as _np

                    if use_out:
                        (_np.add if kind == "iadd" else _np.subtract)(v, w, out=(v,))
                    elif kind == "iadd":
                        v += w
                    else:
                        v -= w
                else:
                    f = number(terms.ev(step["arg"]))
                    twin = before_clone.scale(f) if kind == "imul" else before_clone.scale(1 / f)
                    use_out = hsh(h["init"], k, "out", variant) % 4 == 0
                    import numpy as _np

                    if use_out:
                        (_np.multiply if kind == "imul" else _np.true_divide)(v, f, out=(v,))
                    elif kind == "imul":
                        v *= f
                    else:
                        v /= f
                calls += 2
                if id(v) != ident:
                    recs.append(dict(base, kind="identity-changed"))
                    ident = id(v)
                if type(v) is not klass:
                    recs.append(dict(base, kind="class-changed", got=type(v).__name__, want=klass.__name__))
                # equals the functional result (code against code, no oracle)
                tc = project(twin)[2]
                vc = project(v)[2]
                for c in vc:
                    if _finite(c):
                        scale = max(scale, abs(c))
                eps = tol * scale * scale * 64
                if coords.result_ok(tc, project(v)[0]) and any(not close_num(a, b, eps) for a, b in zip(vc[:3], tc[:3])):
                    recs.append(dict(base, kind="differs-from-functional-twin", got=[mpmath.nstr(c, 20) for c in vc],
                                     want=[mpmath.nstr(c, 20) for c in tc]))
            else:
                # operations that must raise and leave the object unchanged
                import vector

                n = len(project(v)[0]) + 1
                other_dim = 3 if n != 3 else 2
                ov = coords.build(classes, "generic", [mpf(1), mpf(2), mpf(3), mpf(9)][:other_dim], coords.CANON[other_dim], number)
                same = coords.build(classes, "generic", [mpf(1), mpf(2), mpf(3), mpf(9)][:n], coords.CANON[n], number)
                raised = None
                try:
                    if kind == "iadd_number":
                        v += number(mpf(3))
                    elif kind == "iadd_wrong_dimension":
                        v += ov
                    elif kind == "isub_wrong_dimension":
                        v -= ov
                    elif kind == "imul_vector":
                        v *= same
                    elif kind == "idiv_vector":
                        v /= same
                except Exception as ex:
                    raised = type(ex).__name__
                calls += 1
                if raised is None:
                    recs.append(dict(base, kind="bad-operation-did-not-raise"))
                after = groups(v)
                if id(v) != ident or any(not group_equal(after[g], before[g]) for g in before) or set(after) != set(before):
                    recs.append(dict(base, kind="raise-changed-object", raised=raised, got=repr(v), want=repr(before_clone)))
                    ident = id(v)
        except Exception as ex:
            recs.append(dict(base, kind="exception", error=f"{type(ex).__name__}: {ex}"[:300]))
            break
        # after every step: the object against the specification's state
        if step["raised"] == "F":
            d = close_state(v, step["post"], eps)
            if d:
                recs.append(dict(base, kind="state-differs-from-specification", got=d))
                break
    for r in recs:
        r["history"] = {"init": h["init"], "steps": [{k: s[k] for k in ("kind", "name", "arg", "raised")} for s in h["steps"]]}
    return recs, calls


def worker(args):
    chunk, mode, variants = args
    from . import mplib
    import numpy

    if mode == "mp":
        classes, number = mplib.mp_classes(), mplib.M
    else:
        classes, number = coords.f64_classes(), (lambda v: numpy.float64(float(v)))
    out = {"records": [], "calls": 0, "histories": 0, "steps": 0}
    for h in chunk:
        for variant in range(variants):
            with numpy.errstate(all="ignore"):
                try:
                    r, c = run_history(h, classes, number, mode, variant)
                except Exception as ex:
                    from . import common as _c
                    r, c = [_c.crash_record("history", ex, history={"init": h["init"], "steps": [{k: s_[k] for k in ("kind", "name", "arg")} for s_ in h["steps"]]})], 0
            out["records"] += r
            out["calls"] += c
        out["histories"] += 1
        out["steps"] += len(h["steps"])
    return out


def replay(histories, mode="mp", variants=1, procs=16):
    import multiprocessing as mp

    n = max(1, min(procs, len(histories)))
    chunks = [histories[i::n * 4] for i in range(n * 4)]
    chunks = [c for c in chunks if c]
    total = {"records": [], "calls": 0, "histories": 0, "steps": 0}
    with mp.get_context("fork").Pool(n) as pool:
        for out in pool.imap_unordered(worker, [(c, mode, variants) for c in chunks]):
            total["records"] += out["records"]
            for k in ("calls", "histories", "steps"):
                total[k] += out[k]
    return total


# ------------------------------------------------------------------ code -> spec traces
from fractions import Fraction
import random


def snap(x):
    """Exact rational of an mp number if it is one with a small denominator, else None."""
    if not _finite(x):
        return None
    if x != 0 and abs(x) < mpf(10) ** -30:
        return None          # rounding residue: not an exact value (discrete decisions may depend on its sign)
    fr = Fraction(mpmath.nstr(x, 58)).limit_denominator(10 ** 6)
    if abs(mpf(fr.numerator) / fr.denominator - x) > mpf(10) ** -45 * (1 + abs(x)):
        return None
    if abs(fr.numerator) >= 2 ** 30 or fr.denominator >= 2 ** 30:
        return None
    return ["q", fr.numerator, fr.denominator]


def qterm(fr):
    fr = Fraction(fr)
    return ["q", fr.numerator, fr.denominator]


def project_spec(v):
    """The specification's view of a real object: record with exact terms where possible."""
    import vector

    sig, st, cart = project(v)
    flavor = "momentum" if isinstance(v, vector.Momentum) else "generic"
    exact = True
    if sig[0] == "xy":
        a, b = snap(st[0]), snap(st[1])
        az = ["xy", a, b]
        exact &= a is not None and b is not None
    else:
        r, c, s = snap(st[0]), snap(mpmath.cos(st[1])), snap(mpmath.sin(st[1]))
        az = ["rhophi", r, [c, s]]
        exact &= None not in (r, c, s)
    lon = ["none"]
    if len(sig) > 1:
        if sig[1] == "z":
            z = snap(st[2])
            lon = ["z", z]
            exact &= z is not None
        elif sig[1] == "theta":
            c, s = snap(mpmath.cos(st[2])), snap(mpmath.sin(st[2]))
            lon = ["theta", [c, s]]
            exact &= None not in (c, s)
        else:
            k = snap(mpmath.exp(st[2]))
            lon = ["eta", k]
            exact &= k is not None
    tmp = ["none"]
    if len(sig) > 2:
        t = snap(st[3])
        tmp = [sig[2], t]
        exact &= t is not None
    g = groups(v)

    def dg(c):
        return type(c).__name__ + ":" + ",".join(mpmath.nstr(coords.to_mpf(e), 60) for e in c.elements)

    rec = {"flavor": flavor, "exact": "T" if exact else "F",
           "az": az if exact else [az[0]], "lon": lon if exact else [lon[0]], "tmp": tmp if exact else [tmp[0]],
           "digest_az": dg(g["az"]), "digest_lon": dg(g["lon"]) if "lon" in g else "-",
           "digest_tmp": dg(g["tmp"]) if "tmp" in g else "-"}
    rec["digest"] = "|".join([type(v).__name__, rec["digest_az"], rec["digest_lon"], rec["digest_tmp"]])
    return rec


D_LENGTHS = [Fraction(5), Fraction(-3), Fraction(1, 2), Fraction(7, 4), Fraction(0)]
D_RADII = [Fraction(5), Fraction(13), Fraction(2)]
D_TAUS = [Fraction(5), Fraction(60), Fraction(1)]
D_ANGLES = [(Fraction(3, 5), Fraction(4, 5)), (Fraction(-5, 13), Fraction(12, 13)), (Fraction(0), Fraction(-1)),
            (Fraction(8, 17), Fraction(-15, 17)), (Fraction(-1), Fraction(0))]
D_THETAS = [(Fraction(3, 5), Fraction(4, 5)), (Fraction(-4, 5), Fraction(3, 5)), (Fraction(0), Fraction(1))]
D_KS = [Fraction(2), Fraction(1, 3), Fraction(3, 2)]
D_SEEDS = {2: [(3, 4), (-5, 12), (1, 1)], 3: [(3, 4, 12), (-9, 12, -20), (1, 2, 2)],
           4: [(3, 4, 12, 85), (-9, 12, -20, 65), (1, 2, 2, 7), (0, 0, 3, 5)]}
D_OPERANDS = {2: [(1, 2), (-3, 4), (0, 0)], 3: [(1, 2, 2), (-3, 4, 12), (0, 0, 1)], 4: [(1, 2, 2, 7), (0, 0, 0, 1), (3, 4, 12, 13)]}
D_FACTORS = [Fraction(2), Fraction(-1, 2), Fraction(3), Fraction(1, 4)]


def record_traces(seed, ntraces, length):
    """Drive real (60-digit) object vectors with random mutation attempts; one event per attempt."""
    from . import mplib
    import numpy

    rng = random.Random(seed)
    classes, number = mplib.mp_classes(), mplib.M
    events = []
    for tid in range(ntraces):
        n = rng.choice([2, 3, 4])
        vec = [mpf(c) for c in rng.choice(D_SEEDS[n])]
        sigs = [s for s in coords.signatures(n) if coords.representable(vec, s)]
        v = coords.build(classes, rng.choice(["generic", "momentum"]), vec, rng.choice(sigs), number)
        flavor = "momentum" if "Momentum" in type(v).__name__ else "generic"
        for seq in range(length):
            pre = project_spec(v)
            ident, klass = id(v), type(v)
            names = ["x", "y", "rho", "phi"] + (["z", "theta", "eta"] if n >= 3 else []) + (["t", "tau"] if n == 4 else [])
            roll = rng.random()
            ev = {"tid": tid, "seq": seq, "name": "", "arg": []}
            raised = "F"
            with numpy.errstate(all="ignore"):
                try:
                    if roll < 0.5:
                        name = rng.choice(names)
                        ev["kind"], ev["name"] = "set", name
                        if name in ("x", "y", "z", "t"):
                            a = rng.choice(D_LENGTHS); ev["arg"] = qterm(a); val = mpf(a.numerator) / a.denominator
                        elif name == "rho":
                            a = rng.choice(D_RADII); ev["arg"] = qterm(a); val = mpf(a.numerator) / a.denominator
                        elif name == "tau":
                            a = rng.choice(D_TAUS); ev["arg"] = qterm(a); val = mpf(a.numerator) / a.denominator
                        elif name in ("phi", "theta"):
                            c, s = rng.choice(D_ANGLES if name == "phi" else D_THETAS)
                            ev["arg"] = [qterm(c), qterm(s)]
                            val = mpmath.atan2(mpf(s.numerator) / s.denominator, mpf(c.numerator) / c.denominator)
                        else:
                            k = rng.choice(D_KS); ev["arg"] = qterm(k); val = mpmath.log(mpf(k.numerator) / k.denominator)
                        spell = SYN[name] if flavor == "momentum" else SYN[name][:1]
                        setattr(v, rng.choice(spell), number(val))
                    elif roll < 0.85:
                        kind = rng.choice(["iadd", "isub", "imul", "idiv"])
                        ev["kind"] = kind
                        if kind in ("iadd", "isub"):
                            w = rng.choice(D_OPERANDS[n])
                            ev["arg"] = [qterm(c) for c in w]
                            wv = [mpf(c) for c in w]
                            ws = rng.choice([s for s in coords.signatures(n) if coords.representable(wv, s)])
                            wobj = coords.build(classes, rng.choice(["generic", "momentum"]), wv, ws, number)
                            if kind == "iadd":
                                v += wobj
                            else:
                                v -= wobj
                        else:
                            f = rng.choice(D_FACTORS)
                            ev["arg"] = qterm(f)
                            fv = number(mpf(f.numerator) / f.denominator)
                            if kind == "imul":
                                v *= fv
                            else:
                                v /= fv
                    else:
                        kind = rng.choice(["iadd_number", "iadd_wrong_dimension", "imul_vector", "idiv_vector", "isub_wrong_dimension"])
                        ev["kind"] = kind
                        od = 3 if n != 3 else 2
                        ov = coords.build(classes, "generic", [mpf(1), mpf(2), mpf(3), mpf(9)][:od], coords.CANON[od], number)
                        same = coords.build(classes, "generic", [mpf(1), mpf(2), mpf(3), mpf(9)][:n], coords.CANON[n], number)
                        if kind == "iadd_number":
                            v += number(mpf(3))
                        elif kind == "iadd_wrong_dimension":
                            v += ov
                        elif kind == "isub_wrong_dimension":
                            v -= ov
                        elif kind == "imul_vector":
                            v *= same
                        else:
                            v /= same
                except Exception:
                    raised = "T"
            ev["raised"] = raised
            ev["pre"] = pre
            ev["post"] = project_spec(v)
            ev["sameid"] = "T" if id(v) == ident else "F"
            ev["sameclass"] = "T" if type(v) is klass else "F"
            events.append(ev)
            # a trace whose state became non-finite is abandoned (nothing more to learn from it)
            if any(not _finite(c) for c in project(v)[2]):
                break
    return events


def validate_traces(events):
    """Run TLC on ObjectSMTrace.tla over the recorded events.  Returns (verdicts, summary, stats)."""
    import os
    import shutil
    from . import tlc

    d = tlc.scratch_dir("trace")
    try:
        path = os.path.join(d, "trace.ndjson")
        with open(path, "w") as f:
            for e in events:
                f.write(json.dumps(e) + "\n")
        cfg = ('SPECIFICATION TraceSpec\nCONSTANTS\n  MaxLen = 0\n  Seeds = "quick"\nINVARIANT AllConsumed\nCHECK_DEADLOCK FALSE\n')
        r = tlc.run_tlc("ObjectSMTrace", cfg, workers=1, env={"TRACE_FILE": path}, xmx="4g")
        verdicts = tlc.parse_cases(r["lines"], "@@VERDICT ")
        summary = tlc.parse_cases(r["lines"], "@@SUMMARY ")
        if not summary:
            raise tlc.TLCError("trace validation did not reach the end of the trace:\n" + "\n".join(r["lines"][-30:]))
        return verdicts, summary[0], {"generated": r["generated"], "distinct": r["distinct"]}
    finally:
        shutil.rmtree(d, ignore_errors=True)


# ------------------------------------------------------------------ the Set action on symbolic (SymPy) vectors
def sympy_setters():
    """ObjectSM's Set action on the SymPy backend: for every coordinate system, flavor and settable name (all spellings) the
    assigned symbol reads back exactly, the partner coordinate of the group keeps its value, the stored coordinates of
    the other groups are the very same expressions, class and identity are kept."""
    import sympy
    from . import sympyx

    recs, calls = [], 0
    point4 = [mpf("1.1"), mpf("-2.2"), mpf("3.3"), mpf("10.5")]
    newval = {"x": mpf("0.7"), "y": mpf("-1.3"), "rho": mpf("2.5"), "phi": mpf("0.4"), "z": mpf("-0.9"), "theta": mpf("1.9"),
              "eta": mpf("0.35"), "t": mpf("12.25"), "tau": mpf("4.5")}
    for n in (2, 3, 4):
        for sig in coords.signatures(n):
            for flavor in ("generic", "momentum"):
                names = [nm for nm in SYN if GROUP_OF[nm] in (["az"] + (["lon"] if n > 2 else []) + (["tmp"] if n > 3 else []))]
                for name in names:
                    for attr in (SYN[name] if flavor == "momentum" else SYN[name][:1]):
                        base = {"op": f"set:{attr}", "tag": "objsm-sympy", "sig": [sig, None], "flavor": flavor}
                        try:
                            v, syms = sympyx.sym_vector("a", sig, flavor, by_keywords=(len(attr) % 2 == 0))
                        except Exception as ex:
                            recs.append(dict(base, kind="exception", error=f"symbolic operand cannot be constructed: {type(ex).__name__}: {ex}"[:200]))
                            continue
                        point = dict(zip(syms, coords.store(point4[:n], sig)))
                        new = sympy.Symbol("new_value", real=True)
                        point[new] = newval[name]

                        def ev(expr):
                            f = sympy.lambdify(list(point), sympy.sympify(expr), modules="mpmath")
                            r = f(*point.values())
                            return mpf(r.real) if isinstance(r, mpmath.mpc) else mpf(r)

                        before = groups(v)
                        partner = PARTNER.get(name)
                        pval = ev(getattr(v, partner)) if partner else None
                        ident, klass = id(v), type(v)
                        calls += 1
                        try:
                            setattr(v, attr, new)
                            got = getattr(v, attr)
                            if sympy.sympify(got) != new:
                                recs.append(dict(base, kind="assigned-value-not-read-back", got=str(got)[:100]))
                            if sympy.sympify(getattr(v, name)) != new:
                                recs.append(dict(base, kind="assigned-value-not-read-back", attr=name, got=str(getattr(v, name))[:100]))
                            after = groups(v)
                            for g in after:
                                if g != GROUP_OF[name] and not (type(after[g]) is type(before[g]) and tuple(after[g].elements) == tuple(before[g].elements)):
                                    recs.append(dict(base, kind="other-group-changed", group=g, got=repr(after[g])[:120], want=repr(before[g])[:120]))
                            if set(after) != set(before) or type(v) is not klass or id(v) != ident:
                                recs.append(dict(base, kind="class-changed", got=type(v).__name__, want=klass.__name__))
                            if partner:
                                p2 = ev(getattr(v, partner))
                                if not close_num(p2, pval, mpf(10) ** -35, angle=(partner == "phi")):
                                    recs.append(dict(base, kind="partner-changed", partner=partner, got=mpmath.nstr(p2, 25), want=mpmath.nstr(pval, 25)))
                        except Exception as ex:
                            recs.append(dict(base, kind="exception", error=f"{type(ex).__name__}: {ex}"[:300]))
    return recs, calls
