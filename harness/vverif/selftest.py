"""Binding demonstrations: corrupt a recorded field -> TLC rejects exactly that event;
negative configuration -> counterexample; source mutation in a scratch copy -> VIOLATION."""
from __future__ import annotations

import copy
import json
import os
import shutil
import subprocess
import sys
import tempfile

from . import checks_types, objsm, session, tlc

ROOT = os.path.dirname(os.path.dirname(os.path.dirname(os.path.abspath(__file__))))


def demo_objsm_trace():
    events = objsm.record_traces(7, 40, 8)
    verdicts, summary, _ = objsm.validate_traces(events)
    assert not verdicts and summary["accepted"] == len(events), "clean trace must be accepted"
    # corrupt the post-state of one exact 'set' event
    k = next(i for i, e in enumerate(events) if e["kind"] == "set" and e["name"] == "x" and e["pre"]["exact"] == "T" and e["post"]["exact"] == "T")
    bad = copy.deepcopy(events)
    bad[k]["post"]["az"][1] = ["q", 777, 1]
    verdicts, summary, _ = objsm.validate_traces(bad)
    lines = sorted(v["line"] for v in verdicts)
    assert k + 1 in lines, f"corrupted event {k + 1} not rejected: {verdicts}"
    print(f"ObjectSMTrace: clean trace of {len(events)} events accepted; corrupting the logged x of event {k + 1} "
          f"-> rejected events {lines} ({[v['verdict'] for v in verdicts]})")
    # drop a 'raised' flag
    k2 = next(i for i, e in enumerate(events) if e["raised"] == "T")
    bad = copy.deepcopy(events)
    bad[k2]["raised"] = "F"
    verdicts, _, _ = objsm.validate_traces(bad)
    assert any(v["line"] == k2 + 1 for v in verdicts)
    print(f"ObjectSMTrace: flipping the raised flag of event {k2 + 1} -> {[v['verdict'] for v in verdicts if v['line'] == k2 + 1]}")


def demo_session_trace():
    tcs, _ = checks_types.gen_type_cases()
    items = session.catalogue(tcs, 60)
    events, _ = session.run_session(items, tid=0)
    verdicts, summary, _ = session.validate(events)
    known = [v for v in verdicts if v["verdict"] != "operand-modified"]
    assert not known, known
    bad = copy.deepcopy(events)
    bad[10]["gpost"]["err"] = bad[10]["gpost"]["err"].replace("warn", "ignore")
    verdicts, _, _ = session.validate(bad)
    got = {v["line"]: v["verdict"] for v in verdicts if v["verdict"] != "operand-modified"}
    assert got.get(11) == "numpy-error-state-changed" and got.get(12) == "state-changed-between-calls", got
    print(f"SessionTrace: corrupting the NumPy error mode logged after event 11 -> {got}")
    bad = copy.deepcopy(events)
    bad[5]["post"][0] = bad[5]["post"][0] + "x"
    verdicts, _, _ = session.validate(bad)
    assert any(v["line"] == 6 and v["verdict"] == "operand-modified" for v in verdicts)
    print("SessionTrace: corrupting an operand digest after event 6 -> operand-modified")


def demo_globals_negative():
    from .checks_session import GLOB_CFG

    r = tlc.run_tlc("Globals", GLOB_CFG % ("1, 2", "TRUE", "raise", 2), workers=1, allow_violation=True)
    assert r.get("violated")
    print("Globals.tla with SharedErrState = TRUE: GlobalsRestored is violated (counterexample found), as it must be")


MUTATIONS = [
    ("C10", "src/vector/_compute/spatial/rotate_euler.py", "(c1 * c3 - s1 * s2 * s3) * z", "(c1 * c3 + s1 * s2 * s3) * z"),
    ("C20", "src/vector/_compute/spatial/deltaR.py", '    with numpy.errstate(all="ignore"):', '    numpy.seterr(all="ignore")\n    if True:'),
    ("C14", "src/vector/_methods.py", "    def pt2(self) -> ScalarCollection:\n        return self.rho2", "    def pt2(self) -> ScalarCollection:\n        return self.rho"),
]


def demo_mutations():
    for prop, path, old, new in MUTATIONS:
        d = tempfile.mkdtemp(prefix="vverif-mut-", dir=tlc.SCRATCH_ROOT)
        try:
            shutil.copytree("/repo/src", os.path.join(d, "src"))
            p = os.path.join(d, path)
            s = open(p).read()
            assert s.count(old) >= 1, (path, old)
            open(p, "w").write(s.replace(old, new, 1))
            env = dict(os.environ, VERIF_REPO=d, VERIF_EVIDENCE_DIR=os.path.join(d, "evidence"))
            r = subprocess.run([os.path.join(ROOT, "bin", "check"), prop, "--tier", "quick"], env=env, stdout=subprocess.PIPE,
                               stderr=subprocess.STDOUT, text=True)
            ok = r.returncode == 1 and "VIOLATION property=" + prop in r.stdout
            print(f"mutation in {path}: bin/check {prop} -> exit {r.returncode}, VIOLATION line: {ok}")
            assert ok, r.stdout[-1500:]
        finally:
            shutil.rmtree(d, ignore_errors=True)


def main():
    demo_objsm_trace()
    demo_session_trace()
    demo_globals_negative()
    if "--no-mutations" not in sys.argv:
        demo_mutations()
    print("selftest ok")
    return 0


if __name__ == "__main__":
    sys.exit(main())
