"""Sessions of public calls observed from outside (no source hooks): operand digests and the
process-state fingerprint before/after every call (C16, C20), and thread runs (C20)."""
from __future__ import annotations

import hashlib
import json
import os
import pickle
import threading
import warnings

import numpy

from . import coords, typesx


# ------------------------------------------------------------------ digests
def _h(b):
    return hashlib.sha256(b).hexdigest()[:20]


def stable_key(k):
    """A behavior-registry key without memory addresses (comparable across interpreters)."""
    if isinstance(k, tuple):
        return "(" + ", ".join(stable_key(e) for e in k) + ")"
    if isinstance(k, str):
        return repr(k)
    name = getattr(k, "__qualname__", None) or getattr(k, "__name__", None)
    if name is not None:
        return f"{getattr(k, '__module__', '')}.{name}"
    return repr(k)


def digest(x):
    """Bit-level digest of an operand: class, coordinate system / dtype / form, shape, raw bytes."""
    import awkward as ak
    import vector

    if x is None:
        return "none"
    if isinstance(x, vector.VectorObject):
        parts = [type(x).__name__]
        for c in (getattr(x, "azimuthal", None), getattr(x, "longitudinal", None), getattr(x, "temporal", None)):
            if c is not None:
                parts.append(type(c).__name__ + ":" + ",".join(repr(numpy.asarray(e).tobytes().hex()) for e in c.elements))
        return "|".join(parts)
    if isinstance(x, numpy.ndarray):
        return "|".join([type(x).__name__, repr(x.dtype.descr), repr(x.dtype.names), repr(x.shape),
                         _h(numpy.ascontiguousarray(x.view(numpy.ndarray)).tobytes())])
    if isinstance(x, (ak.Array, ak.Record)):
        arr = x if isinstance(x, ak.Array) else ak.Array(x.layout.array[x.layout.at: x.layout.at + 1])
        form, length, bufs = ak.to_buffers(arr)
        hb = hashlib.sha256()
        for k in sorted(bufs):
            hb.update(k.encode())
            hb.update(numpy.asarray(bufs[k]).tobytes())
        return "|".join([type(x).__name__, str(ak.type(x)), form.to_json(), str(length), hb.hexdigest()[:20],
                         "behavior:" + ("none" if x.behavior is None else _h(repr(sorted(stable_key(k) for k in x.behavior.keys())).encode()) + f":{len(x.behavior)}")])
    if isinstance(x, numpy.dtype):
        return "dtype|" + repr(x.descr) + repr(x.names)
    if isinstance(x, dict):
        return "dict|" + "|".join(f"{k}={digest(v)}" for k, v in sorted(x.items()))
    return type(x).__name__ + "|" + repr(x)


def fingerprint():
    """The process-wide state the property talks about."""
    import awkward as ak
    import vector

    filt = _h(repr([(f[0], str(f[1]), getattr(f[2], "__name__", str(f[2])), str(f[3]), f[4]) for f in warnings.filters]).encode())
    po = numpy.get_printoptions()
    keys = sorted(stable_key(k) for k in ak.behavior.keys())
    return {"err": json.dumps(numpy.geterr(), sort_keys=True),
            "filters": filt,
            "printopts": _h(json.dumps({k: repr(v) for k, v in sorted(po.items())}).encode()),
            "registry": _h(json.dumps(keys).encode()) + f":{len(keys)}",
            "registered": "T" if vector._awkward_registered else "F"}


# ------------------------------------------------------------------ catalogue
def extra_calls():
    """Calls beyond the method table of Types.tla: reductions, conversions of containers,
    indexing, copying, printing, constructors fed with the caller's own arrays/dtypes."""
    import awkward as ak
    import vector

    items = []

    def add(name, build, call, backend):
        items.append({"name": name, "build": build, "call": call, "backend": backend})

    # NumPy arrays whose columns have different dtypes (int64 next to float64, float32 next to float64) and all-integer ones:
    # a result's dtype must be built from this call's components, whatever was computed before
    def mk_mixed(kind, n):
        def build():
            cols = {"x": numpy.array([1, 2, 3]), "y": numpy.array([0.5, 1.5, 2.5]), "z": numpy.array([2, 4, 6]), "t": numpy.array([10.5, 11.5, 12.5])}
            if kind == "allint":
                cols = {k: numpy.array([1, 2, 3]) + j for j, k in enumerate("xyzt")}
            if kind == "f32":
                cols["x"] = cols["x"].astype(numpy.float32)
            names = ["x", "y", "z", "t"][:n]
            return vector.array({k: cols[k] for k in names}), vector.array({k: cols[k] for k in names})
        return build

    for n in (2, 3, 4):
        for kind in ("allint", "mixed", "f32", "allint"):
            add(f"mixed-dtype-add:{kind}", mk_mixed(kind, n), lambda A, B: A + B, "np")
            add(f"mixed-dtype-scale:{kind}", mk_mixed(kind, n), lambda A, B: A * 1.5, "np")
            add(f"mixed-dtype-rotateZ:{kind}", mk_mixed(kind, n), lambda A, B: A.rotateZ(0.5), "np")
            add(f"mixed-dtype-sub:{kind}", mk_mixed(kind, n), lambda A, B: A.subtract(B), "np")
            if n > 2:
                add(f"mixed-dtype-rotateX:{kind}", mk_mixed(kind, n), lambda A, B: A.rotateX(0.5), "np")
                add(f"mixed-dtype-to_Vector2D:{kind}", mk_mixed(kind, n), lambda A, B: A.to_Vector2D(), "np")
            if n > 3:
                add(f"mixed-dtype-boostZ:{kind}", mk_mixed(kind, n), lambda A, B: A.boostZ(beta=0.25), "np")
                add(f"mixed-dtype-to_Vector3D:{kind}", mk_mixed(kind, n), lambda A, B: A.to_Vector3D(), "np")

    for sig in [("xy", "z", "t"), ("rhophi", "eta", "tau"), ("rhophi",), ("xy", "theta")]:
        for flavor in ("generic", "momentum"):
            d = len(sig) + 1
            mk_np = (lambda sig=sig, flavor=flavor, d=d: (typesx.build(("np", flavor, d), sig), None))
            mk_ak = (lambda sig=sig, flavor=flavor, d=d: (typesx.build(("akarr", flavor, d), sig), None))
            mk_ob = (lambda sig=sig, flavor=flavor, d=d: (typesx.build(("obj", flavor, d), sig), None))
            add("numpy.sum", mk_np, lambda A, B: numpy.sum(A, axis=0), "np")
            add("sum-method", mk_np, lambda A, B: A.sum(), "np")
            add("numpy.count_nonzero", mk_np, lambda A, B: numpy.count_nonzero(A), "np")
            add("ak.sum", mk_ak, lambda A, B: ak.sum(A, axis=0), "akarr")
            add("ak.count", mk_ak, lambda A, B: ak.count(A, axis=0), "akarr")
            add("ak.count_nonzero", mk_ak, lambda A, B: ak.count_nonzero(A, axis=0), "akarr")
            add("index-int", mk_np, lambda A, B: A[0], "np")
            add("index-slice", mk_np, lambda A, B: A[0:1], "np")
            add("index-mask", mk_np, lambda A, B: A[numpy.array([True, False])], "np")
            add("index-field", mk_np, lambda A, B: A[coords.field_names(coords.sig_of(A))[0]], "np")
            add("reshape", mk_np, lambda A, B: A.reshape(2, 1), "np")
            add("copy", mk_np, lambda A, B: A.copy(), "np")
            add("pickle", mk_np, lambda A, B: pickle.loads(pickle.dumps(A)), "np")
            add("asarray", mk_np, lambda A, B: numpy.asarray(A), "np")
            add("repr", mk_np, lambda A, B: repr(A), "np")
            add("repr", mk_ob, lambda A, B: repr(A), "obj")
            add("str", mk_ak, lambda A, B: str(A), "akarr")
            add("array-of-object", mk_ob, lambda A, B: numpy.asanyarray(A), "obj")
            add("asarray-of-object", mk_ob, lambda A, B: numpy.asarray(A), "obj")
            add("ak-index", mk_ak, lambda A, B: A[0], "akarr")
            add("ak-slice", mk_ak, lambda A, B: A[0:1], "akarr")
            add("isclose-tol", mk_np, lambda A, B: A.isclose(A, rtol=1e-3, atol=1e-3), "np")
            add("allclose", mk_np, lambda A, B: numpy.allclose(A, A), "np")
            add("to_list", mk_ak, lambda A, B: ak.to_list(A), "akarr")
    # calls that raise *inside* the compute layer (after the error-state context was entered)
    def mk_mismatched_np():
        a = vector.array({"x": numpy.array([1.0, 2.0]), "y": numpy.array([3.0, 4.0])})
        b = vector.array({"x": numpy.array([1.0, 2.0, 3.0]), "y": numpy.array([3.0, 4.0, 5.0])})
        return a, b
    def mk_obj_and_sympy():
        import sympy
        a = vector.obj(x=1.0, y=2.0)
        b = vector.VectorSympy2D(x=sympy.Symbol("x"), y=sympy.Symbol("y"))
        return a, b
    def mk_mismatched_ak():
        a = vector.Array([[{"x": 1.0, "y": 2.0}], []])
        b = vector.Array([[{"x": 1.0, "y": 2.0}, {"x": 1.0, "y": 2.0}], []])
        return a, b
    def mk_bad_transform():
        return vector.obj(x=1.0, y=2.0), None
    for nm in ("add", "dot", "deltaphi", "isclose"):
        add("raises-inside:broadcast-" + nm, mk_mismatched_np, lambda A, B, nm=nm: getattr(A, nm)(B), "np")
        add("raises-inside:libs-" + nm, mk_obj_and_sympy, lambda A, B, nm=nm: getattr(A, nm)(B), "obj")
        add("raises-inside:ak-broadcast-" + nm, mk_mismatched_ak, lambda A, B, nm=nm: getattr(A, nm)(B), "akarr")
    add("raises-inside:transform-missing-key", mk_bad_transform, lambda A, B: A.transform2D({"xx": 1.0}), "obj")
    add("raises-inside:rotate-bad-angle", mk_bad_transform, lambda A, B: A.rotateZ("angle"), "obj")
    # constructors handed the caller's own containers
    for names in (("x", "y"), ("px", "py"), ("pt", "phi", "eta", "mass"), ("rho", "phi", "z", "t")):
        def mk_struct(names=names):
            arr = numpy.array([tuple(float(i + 1) for i in range(len(names)))] * 2, dtype=[(n, float) for n in names])
            return arr, arr.dtype
        def mk_cols(names=names):
            return {n: numpy.array([1.0 + i, 2.0 + i]) for i, n in enumerate(names)}, None
        def mk_akcols(names=names):
            return {n: ak.Array([1.0 + i, 2.0 + i]) for i, n in enumerate(names)}, None
        dim = len(names)
        mom = any(n in ("px", "py", "pt", "mass") for n in names)
        klass = getattr(vector, ("MomentumNumpy" if mom else "VectorNumpy") + f"{dim}D")
        add("view-as-vector-class", mk_struct, lambda A, B, klass=klass: A.view(klass), "np")
        add("vector-class-of-array", mk_struct, lambda A, B, klass=klass: klass(A), "np")
        add("vector.array-of-dict", mk_cols, lambda A, B: vector.array(A), "np")
        add("vector.zip", mk_akcols, lambda A, B: vector.zip(A), "akarr")
        add("vector.Array-of-records", lambda names=names: ([{n: 1.0 + i for i, n in enumerate(names)}], None),
            lambda A, B: vector.Array(A), "akarr")
        # Awkward inputs that already carry a behavior mapping: the caller's own dict, and the global registry
        def mk_ak_userbehavior(names=names):
            return ak.Array([{n: 1.0 + i for i, n in enumerate(names)}], behavior={"user-key": 1}), None
        def mk_ak_globalbehavior(names=names):
            return ak.Array([{n: 1.0 + i for i, n in enumerate(names)}], behavior=ak.behavior), None
        def mk_akcols_userbehavior(names=names):
            return {n: ak.Array([1.0 + i, 2.0 + i], behavior={"user-key": 1}) for i, n in enumerate(names)}, None
        add("vector.Array-of-ak-with-user-behavior", mk_ak_userbehavior, lambda A, B: vector.Array(A), "akarr")
        add("vector.Array-of-ak-with-global-behavior", mk_ak_globalbehavior, lambda A, B: vector.Array(A), "akarr")
        add("vector.zip-of-ak-with-user-behavior", mk_akcols_userbehavior, lambda A, B: vector.zip(A), "akarr")
        add("vector.Array-with_name", mk_ak_userbehavior, lambda A, B: vector.Array(ak.with_name(A, "Momentum4D" if len(names) == 4 else "Vector2D")), "akarr")
    return items


def catalogue(type_cases, limit=None, salt="c", by_dim=True, cover=True):
    """Call list: the executed states of Types.tla (one sampled system pairing each) plus extra_calls()."""
    items = []
    for tc in type_cases:
        if tc["req"]["out"] == "NoSuchMethod":
            continue
        db = tc["b"][2] if tc["b"][0] != "none" else 0
        sa, sb = typesx.sys_plan(tc["a"][2], db, False, json.dumps([tc["m"], tc["a"], tc["b"], salt]))[0]
        items.append({"name": tc["m"], "tc": tc, "sa": sa, "sb": sb,
                      "backend": "+".join(sorted({tc["a"][0], tc["b"][0]} - {"none"}))})
    if limit and len(items) > limit:
        # every (method, backend and dimension of the first operand) at least once - each backend has its own tables and wrappers -
        # then an even sample of the rest
        must, rest = {}, []
        for it in items:
            key = (it["name"], it["tc"]["a"][0], it["tc"]["a"][2] if by_dim else 0)      # the wrappers are per backend and per dimension
            if key not in must:
                must[key] = it
            else:
                rest.append(it)
        step = len(rest) / float(limit)
        # the must-items once more in coordinate-system pairings that cover every temporal / azimuthal combination of the two
        # operands (kernels are specialised per pairing: an in-place update may sit in exactly one of them)
        covering = []
        PAIR = {4: [(("xy", "z", "t"), ("rhophi", "eta", "tau")), (("rhophi", "theta", "tau"), ("xy", "z", "t")),
                    (("xy", "eta", "tau"), ("rhophi", "z", "tau")), (("rhophi", "z", "t"), ("xy", "theta", "t"))],
                3: [(("xy", "z"), ("rhophi", "eta")), (("rhophi", "theta"), ("xy", "z")), (("xy", "eta"), ("xy", "theta"))],
                2: [(("xy",), ("rhophi",)), (("rhophi",), ("xy",))]}
        if by_dim and cover:
            for it in must.values():
                da = it["tc"]["a"][2]
                db = it["tc"]["b"][2] if it["tc"]["b"][0] != "none" else 0
                if not db:
                    # one-vector methods: every coordinate system of the dimension (a kernel may write into the column it was handed)
                    for pa in coords.signatures(da):
                        if pa != it["sa"]:
                            covering.append(dict(it, sa=pa, sb=None))
                    continue
                for pa, pb in PAIR[da]:
                    sb = None
                    if db:
                        sb = pb if db == da else [q[1] for q in PAIR[db]][PAIR[da].index((pa, pb)) % len(PAIR[db])]
                    if (pa, sb) != (it["sa"], it["sb"]):
                        covering.append(dict(it, sa=pa, sb=sb))
        items = list(must.values()) + covering + [rest[int(i * step)] for i in range(limit)]
    # every method once more with a poisoned object operand (first, and for binary methods also second):
    # the exception is raised inside the compute layer, the process state must still be restored
    seen, poisoned = set(), []
    for tc in type_cases:
        if tc["req"]["out"] != "vec" and tc["req"]["out"] not in ("num", "bool"):
            continue
        if tc["a"][0] != "obj" or tc["b"][0] not in ("obj", "none"):
            continue
        key = (tc["m"], tc["a"][2], tc["b"][2] if tc["b"][0] != "none" else 0)
        if key in seen:
            continue
        seen.add(key)
        db = tc["b"][2] if tc["b"][0] != "none" else 0
        sa = coords.signatures(tc["a"][2])[-1]
        sb = coords.signatures(db)[-1] if db else None
        for which in (["a", "b"] if db else ["a"]):
            poisoned.append({"name": "poisoned:" + tc["m"], "tc": tc, "sa": sa, "sb": sb, "backend": "obj", "poison": which})
    return items + poisoned + extra_calls()


def poison(v):
    """An object vector whose stored coordinates are not numbers: every computation on it raises from
    inside the compute function, i.e. after the dispatcher entered its error-state context."""
    from vector.backends import object as vobj

    g = {"azimuthal": type(v.azimuthal)(None, "not-a-number")}
    if hasattr(v, "longitudinal"):
        g["longitudinal"] = type(v.longitudinal)(None)
    if hasattr(v, "temporal"):
        g["temporal"] = type(v.temporal)(None)
    return type(v)(**g)


def perform(item):
    """Build the operands and return (A, B, thunk)."""
    if "tc" in item:
        tc = item["tc"]
        A = typesx.build(tc["a"], item["sa"], 0)
        B = typesx.build(tc["b"], item["sb"], 1) if tc["b"][0] != "none" else None
        if item.get("poison") == "a":
            A = poison(A)
        elif item.get("poison") == "b":
            B = poison(B)
        return A, B, (lambda: typesx.invoke(tc["m"], A, B))
    A, B = item["build"]()
    return A, B, (lambda: item["call"](A, B))


MUTATING = set()        # the catalogue contains no assignment / in-place call


def result_digest(out):
    import vector

    try:
        if isinstance(out, vector.Vector) or isinstance(out, numpy.ndarray):
            return digest(out)
        import awkward as ak

        if isinstance(out, (ak.Array, ak.Record)):
            return digest(out)
        return "value|" + repr(out)
    except Exception as ex:  # pragma: no cover
        return "undigestable|" + type(ex).__name__


def run_session(items, tid=0, thread="main", with_results=False):
    """Execute the items in order; one event per call."""
    events, results = [], []
    for seq, item in enumerate(items):
        try:
            A, B, thunk = perform(item)
        except Exception as ex:
            continue
        pre = [digest(A), digest(B)]
        gpre = fingerprint()
        raised = "F"
        out = None
        try:
            out = thunk()
        except Exception as ex:
            raised = "T"
            out = ("raised", type(ex).__name__)
        gpost = fingerprint()
        post = [digest(A), digest(B)]
        events.append({"tid": tid, "thread": thread, "seq": seq, "kind": item["name"], "backend": item["backend"],
                       "mutating": "T" if item["name"] in MUTATING else "F", "raised": raised,
                       "pre": pre, "post": post, "gpre": gpre, "gpost": gpost})
        if with_results:
            results.append(result_digest(out) if raised == "F" else "raised:" + out[1])
    return events, results


def _fmt3(x):
    return "%.3f" % x


PRIORS = [
    ("default", lambda: None),
    ("seterr-raise", lambda: numpy.seterr(all="raise")),
    ("seterr-warn+warnings-error", lambda: (numpy.seterr(all="warn"), warnings.simplefilter("error"))),
    ("warnings-ignore+printoptions", lambda: (warnings.simplefilter("ignore"),
                                              numpy.set_printoptions(precision=3, suppress=True, formatter={"float_kind": _fmt3}))),
]


def session_in_subprocess(args):
    """One session under one prior setting, in registered or unregistered Awkward mode (fresh process)."""
    prior_index, registered, type_cases, limit, tid, covering = args
    import vector

    name, setup = PRIORS[prior_index]
    events = []
    setup()
    if registered:
        # register twice: the second call must change nothing
        for k in range(2):
            gpre = fingerprint()
            vector.register_awkward()
            gpost = fingerprint()
            events.append({"tid": tid, "thread": "main", "seq": -2 + k, "kind": "register_awkward", "backend": "-",
                           "mutating": "F", "raised": "F", "pre": [], "post": [], "gpre": gpre, "gpost": gpost})
    items = catalogue(type_cases, limit, salt=name, cover=covering)
    ev, _ = run_session(items, tid=tid)
    for e in ev:
        e["prior"] = name
        e["registered_mode"] = "T" if registered else "F"
    for e in events:
        e["prior"] = name
        e["registered_mode"] = "T"
    return events + ev


def run_sessions(type_cases, limit, procs=8, covering=True):
    import multiprocessing as mp

    jobs = []
    tid = 0
    for p in range(len(PRIORS)):
        for registered in (False, True):
            jobs.append((p, registered, type_cases, limit, tid, covering))
            tid += 1
    ctx = mp.get_context("spawn")       # fresh interpreters: priors and registration must not leak
    out = []
    with ctx.Pool(min(procs, len(jobs))) as pool:
        for ev in pool.imap(session_in_subprocess, jobs):
            out += ev
    return out


# ------------------------------------------------------------------ threads
def thread_run(type_cases, limit, nthreads=16, repeats=1):
    """The same call list sequentially and on `nthreads` threads: results must be bit-identical,
    and each thread's events carry per-thread sequence numbers."""
    import sys

    items = [it for it in catalogue(type_cases, limit, salt="threads", by_dim=False)]
    with warnings.catch_warnings():
        warnings.simplefilter("ignore")
        seq_events, seq_results = run_session(items, tid=100, thread="sequential", with_results=True)
        old = sys.getswitchinterval()
        sys.setswitchinterval(1e-6)
        all_events, mismatches = list(seq_events), []
        state_before = fingerprint()
        try:
            for rep in range(repeats):
                barrier = threading.Barrier(nthreads)
                outs = [None] * nthreads

                def work(k):
                    barrier.wait()
                    outs[k] = run_session(items, tid=101 + rep, thread=f"t{k}", with_results=True)

                ths = [threading.Thread(target=work, args=(k,)) for k in range(nthreads)]
                for t in ths:
                    t.start()
                for t in ths:
                    t.join()
                # while threads overlap a change cannot be attributed to one call, but once they have all finished the
                # process-wide state must be what it was (save / restore pairs that interleave across threads leak)
                state_after = fingerprint()
                if state_after != state_before:
                    mismatches.append({"thread": -1, "call": "(all)", "backend": "-", "what": "process-wide state after the threads finished differs",
                                       "got": json.dumps(state_after)[:300], "want": json.dumps(state_before)[:300]})
                    state_before = state_after
                for k, (ev, res) in enumerate(outs):
                    all_events += ev
                    if len(res) != len(seq_results):
                        mismatches.append({"thread": k, "what": "different number of results"})
                        continue
                    for j, (a, b) in enumerate(zip(res, seq_results)):
                        if a != b:
                            mismatches.append({"thread": k, "call": items[j]["name"], "backend": items[j]["backend"],
                                               "got": a[:200], "want": b[:200]})
        finally:
            sys.setswitchinterval(old)
    return all_events, mismatches, len(items)


def thread_hammer(type_cases, nthreads=8, reps=4, with_poisoned=True):
    """Every (method, backend) of the catalogue called by all threads *at the same moment* (a barrier per item, `reps`
    calls each): save / restore pairs of process-wide state that are not thread-safe leak exactly when two calls of
    the same kind overlap.  Between two items every thread is parked at the barrier, so the process-wide state can be
    read race-free and a change is attributed to the item.  Returns (mismatches, number of items, calls)."""
    import sys

    items = [it for it in catalogue(type_cases, 1, salt="hammer", by_dim=with_poisoned) if with_poisoned or not it["name"].startswith("poisoned:")]
    with warnings.catch_warnings():
        warnings.simplefilter("ignore")
        _, seq_results = run_session(items, tid=200, thread="sequential", with_results=True)
        mismatches = []
        barrier = threading.Barrier(nthreads)
        state = [fingerprint()]
        old = sys.getswitchinterval()
        sys.setswitchinterval(1e-6)

        def one(item):
            try:
                A, B, thunk = perform(item)
                return result_digest(thunk())
            except Exception as ex:
                return "raised:" + type(ex).__name__

        def work(k):
            for j, item in enumerate(items):
                barrier.wait()
                for r in range(reps):
                    d = one(item)
                    if d != seq_results[j] and len(mismatches) < 50:
                        mismatches.append({"thread": k, "call": item["name"], "backend": item["backend"], "got": d[:200], "want": seq_results[j][:200]})
                if barrier.wait() == 0:
                    now = fingerprint()
                    if now != state[0]:
                        mismatches.append({"thread": -1, "call": item["name"], "backend": item["backend"],
                                           "what": "process-wide state differs after all threads returned from this call",
                                           "got": json.dumps(now)[:300], "want": json.dumps(state[0])[:300]})
                        state[0] = now

        try:
            ths = [threading.Thread(target=work, args=(k,)) for k in range(nthreads)]
            for t in ths:
                t.start()
            for t in ths:
                t.join()
        finally:
            sys.setswitchinterval(old)
    pm, pitems, pcalls = thread_params(nthreads, reps)
    return mismatches + pm, len(items) + pitems, len(items) * nthreads * reps + pcalls


def _order_items(type_cases, limit):
    import vector

    items = [it for it in catalogue(type_cases, limit, salt="order") if not it["name"].startswith("poisoned:")]
    raw4 = [1.5, 0.25, 0.5, 2.0]
    for n in (2, 3, 4):
        for sig in coords.signatures(n):
            for flavor in ("generic", "momentum"):
                names = coords.field_names(sig)
                if flavor == "momentum":
                    names = [coords.MOM_NAMES[x] for x in names]
                kw = dict(zip(names, raw4[:n]))
                mk = (lambda kw=kw: (vector.obj(**kw), None))
                for nm, call in (("same-numbers:__array__", lambda A, B: numpy.asanyarray(A)), ("same-numbers:asarray", lambda A, B: numpy.asarray(A)),
                                 ("same-numbers:rho+eta", lambda A, B: (A.rho, A.phi, A.x)), ("same-numbers:to_xy", lambda A, B: A.to_xy()),
                                 ("same-numbers:repr", lambda A, B: repr(A)), ("same-numbers:hash-free-eq", lambda A, B: A == A)):
                    items.append({"name": nm, "build": mk, "call": call, "backend": "obj"})
    return items


def _order_worker(args):
    """One fresh interpreter: the call list in the given order (optionally twice)."""
    type_cases, limit, order = args
    items = _order_items(type_cases, limit)
    idx = list(range(len(items)))
    if order == "backward":
        idx.reverse()
    elif order == "interleaved":
        idx = idx[1::2] + idx[0::2]
    with warnings.catch_warnings():
        warnings.simplefilter("ignore")
        _, res = run_session([items[i] for i in idx], tid=300, thread=order, with_results=True)
        _, again = run_session([items[i] for i in idx], tid=301, thread=order + "-again", with_results=True)
    out = [None] * len(items)
    out2 = [None] * len(items)
    for pos, i in enumerate(idx):
        out[i], out2[i] = res[pos], again[pos]
    return order, out, out2, [(it["name"], it["backend"]) for it in items]


def order_run(type_cases, limit=1):
    """No call leaves a trace that a later call can see: the catalogue (plus the same stored numbers offered in every
    coordinate system and arrays of mixed dtypes - what a value- or dtype-keyed cache would confuse) is executed in three
    fresh interpreters in three different orders, twice each; every call must return the same thing in all six."""
    import multiprocessing as mp

    with mp.get_context("spawn").Pool(3) as pool:
        outs = pool.map(_order_worker, [(type_cases, limit, o) for o in ("forward", "backward", "interleaved")])
    ref = next(o for o in outs if o[0] == "forward")
    names = ref[3]
    mism = []
    for order, res, again, _ in outs:
        for label, other in ((order, res), (order + ", second pass", again)):
            for j, d in enumerate(other):
                if d != ref[1][j] and len(mism) < 50:
                    mism.append({"thread": -2, "call": names[j][0], "backend": names[j][1],
                                 "what": "result depends on the calls made before it (order: " + label + ")", "got": d[:200], "want": ref[1][j][:200]})
    return mism, len(names)


def thread_params(nthreads=8, reps=4):
    """The same operation on shared operands, each thread with its OWN scalar arguments (factor, angle, beta, tolerances,
    a single-object operand): every thread must get the result it gets when it runs alone (per-call state must not live
    on anything the threads share)."""
    import sys
    import awkward as ak
    import vector

    builders = {}
    for sig in [("xy", "z", "t"), ("rhophi", "eta", "tau")]:
        for backend in ("obj", "np", "akarr", "akrec"):
            for flavor in ("generic", "momentum"):
                builders[(backend, flavor, sig)] = typesx.build((backend, flavor, 4), sig, 0)
    ops = {
        "scale": lambda A, k: A.scale(1.5 + k), "mul": lambda A, k: A * (2.0 + k), "div": lambda A, k: A / (1.0 + k),
        "rotateZ": lambda A, k: A.rotateZ(0.1 * (k + 1)), "rotateX": lambda A, k: A.rotateX(0.2 * (k + 1)),
        "boostZ": lambda A, k: A.boostZ(beta=0.05 * (k + 1)), "boostX-gamma": lambda A, k: A.boostX(gamma=1.0 + 0.1 * (k + 1)),
        "isclose": lambda A, k: A.isclose(A.scale(1.0 + 0.01 * k), rtol=0.005 * (k + 1), atol=0.0),
        "add-object": lambda A, k: A.add(vector.obj(x=1.0 + k, y=2.0, z=-1.0 * k, t=20.0 + k)),
        "rotate_axis": lambda A, k: A.rotate_axis(vector.obj(x=1.0, y=1.0 * k, z=2.0), 0.3 + 0.1 * k),
        "to_Vector4D-kw": lambda A, k: A.to_Vector3D().to_Vector4D(t=5.0 + k),
        "is_timelike": lambda A, k: A.is_timelike(10.0 * k),
    }
    work_items = [(bk, name) for bk in builders for name in ops]
    mismatches = []
    with warnings.catch_warnings(), numpy.errstate(all="ignore"):
        warnings.simplefilter("ignore")

        def one(bk, name, k):
            try:
                return result_digest(ops[name](builders[bk], k))
            except Exception as ex:
                return "raised:" + type(ex).__name__

        alone = {(bk, name, k): one(bk, name, k) for bk, name in work_items for k in range(nthreads)}
        barrier = threading.Barrier(nthreads)
        old = sys.getswitchinterval()
        sys.setswitchinterval(1e-6)

        def work(k):
            for bk, name in work_items:
                barrier.wait()
                for r in range(reps):
                    d = one(bk, name, k)
                    if d != alone[(bk, name, k)] and len(mismatches) < 50:
                        mismatches.append({"thread": k, "call": "own-arguments:" + name, "backend": bk[0], "got": d[:200], "want": alone[(bk, name, k)][:200]})

        try:
            ths = [threading.Thread(target=work, args=(k,)) for k in range(nthreads)]
            for t in ths:
                t.start()
            for t in ths:
                t.join()
        finally:
            sys.setswitchinterval(old)
    return mismatches, len(work_items), len(work_items) * nthreads * reps


def validate(events):
    """TLC on SessionTrace.tla.  Returns (verdicts, summary, stats)."""
    import shutil
    from . import tlc

    d = tlc.scratch_dir("strace")
    try:
        path = os.path.join(d, "trace.ndjson")
        with open(path, "w") as f:
            for e in events:
                f.write(json.dumps({k: e[k] for k in ("tid", "thread", "seq", "kind", "mutating", "raised", "pre", "post", "gpre", "gpost")}) + "\n")
        cfg = "SPECIFICATION TraceSpec\nINVARIANT AllConsumed\nCHECK_DEADLOCK FALSE\n"
        r = tlc.run_tlc("SessionTrace", cfg, workers=1, env={"TRACE_FILE": path}, xmx="6g")
        verdicts = tlc.parse_cases(r["lines"], "@@VERDICT ")
        summary = tlc.parse_cases(r["lines"], "@@SUMMARY ")
        if not summary:
            raise tlc.TLCError("SessionTrace did not reach the end of the trace:\n" + "\n".join(r["lines"][-30:]))
        return verdicts, summary[0], {"generated": r["generated"], "distinct": r["distinct"]}
    finally:
        shutil.rmtree(d, ignore_errors=True)
