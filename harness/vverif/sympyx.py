"""C08: expressions produced by the SymPy backend, evaluated at points of the regular domain,
agree with the specification and with the 60-digit object backend."""
from __future__ import annotations

import json
import warnings

import mpmath

from . import algebra, coords, terms
from .algebra import rat, angle_of, result_kind, close_num, expected_of

mpf = mpmath.mpf
TOL = mpf(10) ** -35
CONCRETE_PARAMS = {"scale", "divide", "np_power", "scale2D", "scale3D"}
SKIP = {"equal", "not_equal", "isclose"}
# spellings of one operation: method, operator, reflected operator, ufunc, in-place operator (the target keeps its system)
FORMS = {"add": ["method", "operator", "ufunc", "inplace"], "subtract": ["method", "operator", "ufunc", "inplace"],
         "scale": ["method", "operator", "roperator", "inplace"], "divide": ["operator", "inplace"], "dot": ["method", "operator"],
         "neg": ["operator"], "abs": ["operator"], "square": ["operator"], "np_sqrt": ["ufunc"], "np_cbrt": ["ufunc"], "np_power": ["ufunc"]}
_cache = {}
_exprs = {}
_last_key = [None]


def sym_vector(prefix, sig, flavor, by_keywords=False):
    import sympy
    import vector
    from vector.backends import sympy as vs

    names = coords.field_names(sig)
    syms = [sympy.Symbol(f"{prefix}_{n}", real=True) for n in names]
    d = dict(zip(names, syms))
    if by_keywords:
        # the public keyword constructors (momentum spellings for momentum vectors)
        n = len(sig) + 1
        cls = getattr(vector, ("MomentumSympy" if flavor == "momentum" else "VectorSympy") + f"{n}D")
        kw = {(coords.MOM_NAMES[k] if flavor == "momentum" else k): v for k, v in d.items()}
        return cls(**kw), syms
    az = vs.AzimuthalSympyXY(d["x"], d["y"]) if sig[0] == "xy" else vs.AzimuthalSympyRhoPhi(d["rho"], d["phi"])
    n = len(sig) + 1
    cls = getattr(vector, ("MomentumSympy" if flavor == "momentum" else "VectorSympy") + f"{n}D")
    if n == 2:
        return cls(azimuthal=az), syms
    lon = {"z": vs.LongitudinalSympyZ, "theta": vs.LongitudinalSympyTheta, "eta": vs.LongitudinalSympyEta}[sig[1]](d[sig[1]])
    if n == 3:
        return cls(azimuthal=az, longitudinal=lon), syms
    tmp = {"t": vs.TemporalSympyT, "tau": vs.TemporalSympyTau}[sig[2]](d[sig[2]])
    return cls(azimuthal=az, longitudinal=lon, temporal=tmp), syms


def nparams(op, p):
    if op in ("scale", "divide", "np_power", "scale2D", "scale3D", "rotateZ", "rotateX", "rotateY", "rotate_axis") or op.endswith("_beta") or op.endswith("_gamma") or op.startswith("is_"):
        return 1
    if op in ("rotate_euler", "rotate_nautical"):
        return 3
    if op == "rotate_quaternion":
        return 4
    if op.startswith("transform"):
        return len(p[0]) ** 2
    return 0


def param_values(op, p):
    if op in ("scale", "divide", "np_power", "scale2D", "scale3D") or op.endswith("_beta") or op.endswith("_gamma") or op.startswith("is_"):
        return [rat(p[0])]
    if op in ("rotateZ", "rotateX", "rotateY", "rotate_axis"):
        return [angle_of(p[0], 0)]
    if op in ("rotate_euler", "rotate_nautical"):
        return [angle_of(p[0], 0), angle_of(p[1], 0), angle_of(p[2], 0)]
    if op == "rotate_quaternion":
        return [rat(q) for q in p[0]]
    if op.startswith("transform"):
        return [rat(c) for row in p[0] for c in row]
    return []


def sym_call(op, A, B, ps, p, form="method"):
    import numpy

    if op in algebra.UNARY_PROPS:
        return getattr(A, op)
    if op in ("unit", "to_beta3"):
        return getattr(A, op)()
    if op == "scale":
        if form == "operator":
            return A * ps[0]
        if form == "roperator":
            return ps[0] * A
        if form == "inplace":
            A *= ps[0]
            return A
        return A.scale(ps[0])
    if op == "divide":
        if form == "inplace":
            A /= ps[0]
            return A
        return A / ps[0]
    if op in ("add", "subtract") and form != "method":
        if form == "operator":
            return A + B if op == "add" else A - B
        if form == "ufunc":
            return numpy.add(A, B) if op == "add" else numpy.subtract(A, B)
        if op == "add":
            A += B
        else:
            A -= B
        return A
    if op == "dot" and form == "operator":
        return A @ B
    if op == "neg":
        return -A
    if op == "abs":
        return abs(A)
    if op == "square":
        return A ** 2
    if op == "np_sqrt":
        return numpy.sqrt(A)
    if op == "np_cbrt":
        return numpy.cbrt(A)
    if op == "np_power":
        return numpy.power(A, ps[0])
    if op in ("rotateZ", "rotateX", "rotateY"):
        return getattr(A, op)(ps[0])
    if op == "rotate_axis":
        return A.rotate_axis(B, ps[0])
    if op == "rotate_euler":
        return A.rotate_euler(ps[0], ps[1], ps[2], order="".join(p[3]))
    if op == "rotate_nautical":
        return A.rotate_nautical(ps[0], ps[1], ps[2])
    if op == "rotate_quaternion":
        return A.rotate_quaternion(*ps)
    if op in ("scale2D", "scale3D"):
        return getattr(A, op)(ps[0])
    if op in ("neg2D", "neg3D"):
        return getattr(A, op)
    if op.startswith("transform"):
        n = int(op[9])
        L = "xyzt"
        return getattr(A, op[:11])({L[i] + L[j]: ps[i * n + j] for i in range(n) for j in range(n)})
    if op.endswith("_beta"):
        return getattr(A, op[:6])(beta=ps[0])
    if op.endswith("_gamma"):
        return getattr(A, op[:6])(gamma=ps[0])
    if op in ("is_parallel", "is_antiparallel", "is_perpendicular"):
        return getattr(A, op)(B, ps[0])
    if op in ("is_timelike", "is_spacelike", "is_lightlike"):
        return getattr(A, op)(ps[0])
    return getattr(A, op)(B)


def compiled(op, sa, sb, flavor, p, form="method"):
    """(function, result kind, result signature) for the symbolic expression of op in these systems."""
    import sympy
    import vector

    fixed = json.dumps(p[3]) if op == "rotate_euler" else (json.dumps(p) if op in CONCRETE_PARAMS else "")
    key = (op, sa, sb, flavor, fixed, form)
    _last_key[0] = key
    if key in _cache:
        return _cache[key]
    kwctor = (hash(json.dumps([op, sa, sb])) % 2) == 0
    try:
        A, sya = sym_vector("a", sa, "momentum" if op in algebra.MOMENTUM_ONLY else flavor, by_keywords=kwctor)
        B, syb = (sym_vector("b", sb, "generic", by_keywords=not kwctor) if sb else (None, []))
    except Exception as ex:      # a documented coordinate set must construct: reported, not a crash of the harness
        _cache[key] = ("error", f"symbolic operand cannot be constructed: {type(ex).__name__}: {ex}"[:200], None)
        return _cache[key]
    ps = [sympy.Symbol(f"p{k}", real=True) for k in range(nparams(op, p))]
    call_ps = ps
    if op in CONCRETE_PARAMS:
        # the symbolic backend needs the sign of the factor: pass the number itself
        call_ps = [sympy.Rational(p[0][1], p[0][2])]
    try:
        with warnings.catch_warnings():
            warnings.simplefilter("ignore")
            out = sym_call(op, A, B, call_ps, p, form)
    except Exception as ex:
        _cache[key] = ("error", f"{type(ex).__name__}: {ex}"[:200], None)
        return _cache[key]
    rk = result_kind(op)
    args = sya + syb + ps
    if rk == "vec":
        if not isinstance(out, vector.Vector):
            _cache[key] = ("error", f"result is {type(out).__name__}, not a vector", None)
            return _cache[key]
        rsig = coords.sig_of(out)
        els = list(out.azimuthal.elements) + (list(out.longitudinal.elements) if len(rsig) > 1 else []) + (list(out.temporal.elements) if len(rsig) > 2 else [])
        f = sympy.lambdify(args, [sympy.sympify(e) for e in els], modules="mpmath")
        _cache[key] = (f, "vec", rsig)
        _exprs[key] = ([sympy.sympify(e) for e in els], list(sya))
    else:
        f = sympy.lambdify(args, sympy.sympify(out), modules="mpmath")
        _cache[key] = (f, rk, None)
    return _cache[key]


def run_case(case, full):
    recs, calls = [], 0
    op = case["op"]
    if op in SKIP or case["reg"] != "T" or case["exp"][0] == "undef":
        return recs, 0
    va = algebra.vec_of(case["a"])
    vb = algebra.vec_of(case["b"]) if case["b"] else None
    kind, exp, tie = expected_of(case)
    if kind == "bool" and exp == "either":
        return recs, 0
    # outside the regular domain: results on a branch point / not regular themselves, negative gamma
    if op.endswith("_gamma") and rat(case["p"][0]) < 0:
        return recs, 0
    if kind == "vec":
        rho2 = exp[0] ** 2 + exp[1] ** 2
        if rho2 <= mpf(10) ** -30:
            return recs, 0
        if len(exp) == 4 and not (exp[3] > 0 and exp[3] ** 2 - rho2 - exp[2] ** 2 > mpf(10) ** -30):
            return recs, 0
    if kind == "partial" and exp[1][0] ** 2 + exp[1][1] ** 2 <= mpf(10) ** -30:
        return recs, 0
    if kind == "num" and op in algebra.SQRT_LIKE and algebra._finite(exp) and any(abs(exp - s0) <= mpf(10) ** -15 for s0 in algebra.SQRT_LIKE[op]):
        return recs, 0
    sas = coords.signatures(len(va))
    sbs = coords.signatures(len(vb)) if vb else [None]
    combos = [(a, b) for a in sas for b in sbs]
    if not full:
        h = algebra._h(case, "sym")
        combos = [combos[(h + 13 * k) % len(combos)] for k in range(2)]
    pv = param_values(op, case["p"])
    scale = (1 + algebra.maxabs(va)) * (1 + (algebra.maxabs(vb) if vb else 0)) * algebra.param_scale(case)
    if vb is not None:
        scale *= algebra.boost_scale(case, vb)
    if kind == "vec":
        scale = max(scale, 1 + algebra.maxabs(exp))
    elif kind == "partial":
        scale = max(scale, 1 + algebra.maxabs(exp[1]))
    elif kind == "num" and algebra._finite(exp):
        scale = max(scale * scale, 1 + abs(exp))
    for sa, sb in combos:
        flavor = "momentum" if algebra._h(case, "symfl") % 2 else "generic"
        for form in FORMS.get(op, ["method"]):
          base = {"op": op, "sig": [sa, sb], "tag": "sympy", "case": case, "form": form}
          f, rk, rsig = compiled(op, sa, sb, flavor, case["p"], form)
          if f == "error":
              recs.append(dict(base, kind="no-expression", error=rk))
              continue
          vals = coords.store(va, sa) + (coords.store(vb, sb) if vb else []) + pv
          calls += 1
          try:
              out = f(*vals)
          except Exception as ex:
              recs.append(dict(base, kind="evaluation-error", error=f"{type(ex).__name__}: {ex}"[:200]))
              continue
          eps = TOL * scale
          if rk == "bool":
              if bool(out) != (exp == "T"):
                  recs.append(dict(base, kind="wrong-boolean", got=bool(out), want=exp))
          elif rk == "num":
              try:
                  val = mpf(out) if not isinstance(out, mpmath.mpc) else (out.real if abs(out.imag) < eps else mpf("nan"))
              except Exception:
                  recs.append(dict(base, kind="non-numeric", got=repr(out)[:100]))
                  continue
              e = eps
              if op in algebra.SQRT_LIKE and any(abs(exp - s0) <= mpf(10) ** -15 * scale for s0 in algebra.SQRT_LIKE[op]):
                  e = mpf(10) ** -20 * scale
              if op == "np_cbrt":
                  e = max(e, mpf(10) ** -14 * scale)     # the library's exponent is the double literal 0.16666666666666666
              if not close_num(val, exp, e, angle=(op in algebra.ANGLE_VALUED or tie)):
                  recs.append(dict(base, kind="wrong-value", got=mpmath.nstr(val, 30), want=mpmath.nstr(exp, 30)))
          elif kind == "partial":
              # scaleN / negN / transformN on a higher-dimensional vector: the first N Cartesian components are
              # transformed, the stored higher coordinates are the operand's own (the very same symbols)
              npart, pexp = exp
              st = [mpf(x) if not isinstance(x, mpmath.mpc) else x.real for x in out]
              exprs, srcsyms = _exprs[_last_key[0]]
              if len(rsig) != len(sa):
                  recs.append(dict(base, kind="wrong-dimension", got=len(rsig) + 1, want=len(sa) + 1))
                  continue
              bad_high = [g for g in range(npart - 1, len(sa)) if rsig[g] != sa[g] or exprs[g + 1] != srcsyms[g + 1]]
              if bad_high:
                  recs.append(dict(base, kind="stored-higher-coordinate-not-carried", groups=bad_high, rsig=rsig,
                                   got=[str(exprs[g + 1])[:60] for g in bad_high], want=[str(srcsyms[g + 1]) for g in bad_high]))
                  continue
              cart = coords.denote(st, rsig)
              if npart == 3 and not algebra.result_representable(list(pexp) + ([cart[3]] if len(cart) > 3 else []), rsig):
                  continue
              bad = [i for i in range(npart) if not close_num(cart[i], pexp[i], eps)]
              if bad:
                  recs.append(dict(base, kind="wrong-value", rsig=rsig, got=[mpmath.nstr(c, 25) for c in cart], want=[mpmath.nstr(c, 25) for c in pexp]))
          else:
              st = [mpf(x) if not isinstance(x, mpmath.mpc) else x.real for x in out]
              if len(st) != len(exp) or len(rsig) + 1 != len(exp):
                  recs.append(dict(base, kind="wrong-dimension", got=len(st), want=len(exp)))
                  continue
              if not algebra.result_representable(exp, rsig):
                  continue
              cart = coords.denote(st, rsig)
              bad = [i for i in range(len(exp)) if not close_num(cart[i], exp[i], eps)]
              if bad == [3] and rsig[2] == "tau":
                  m2 = exp[3] ** 2 - exp[0] ** 2 - exp[1] ** 2 - exp[2] ** 2
                  etau = mpmath.sqrt(m2) if m2 >= 0 else -mpmath.sqrt(-m2)
                  if close_num(st[3], etau, mpf(10) ** -20 * scale):
                      bad = []
              if bad:
                  recs.append(dict(base, kind="wrong-value", rsig=rsig, got=[mpmath.nstr(c, 25) for c in cart], want=[mpmath.nstr(c, 25) for c in exp]))
    return recs, calls


def worker(args):
    chunk, full = args
    out = {"records": [], "calls": 0, "cases": 0, "expressions": 0}
    for c in chunk:
        try:
            r, n = run_case(c, full)
        except Exception as ex:
            from . import common as _c
            r, n = [_c.crash_record(c["op"], ex, case=c)], 0
        out["records"] += r
        out["calls"] += n
        out["cases"] += 1 if n else 0
    out["expressions"] = len([k for k, v in _cache.items() if v[0] != "error"])
    out["expr_keys"] = [json.dumps(k) for k, v in _cache.items() if v[0] != "error"]
    return out


def replay(cases, full=False, procs=16):
    import multiprocessing as mp

    # keep the cases of one operation together so that compiled expressions are reused
    cases = sorted(cases, key=lambda c: (c["op"], len(c["a"]), len(c["b"] or [])))
    n = max(1, min(procs, len(cases)))
    per = max(1, len(cases) // (n * 3))
    chunks = [cases[i:i + per] for i in range(0, len(cases), per)]
    total = {"records": [], "calls": 0, "cases": 0}
    keys = set()
    with mp.get_context("fork").Pool(n) as pool:
        for out in pool.imap_unordered(worker, [(c, full) for c in chunks]):
            total["records"] += out["records"]
            total["calls"] += out["calls"]
            total["cases"] += out["cases"]
            keys |= set(out["expr_keys"])
    total["expressions"] = len(keys)
    return total


# ---------------------------------------------------------------- conversions (states of Convert.tla) on the SymPy backend
CONV_POINT = (mpf("1.1"), mpf("-2.2"), mpf("3.3"), mpf("10.5"))
CONV_KW = {"lon": mpf("0.625"), "tmp": mpf("7.5")}


def run_conversion(c):
    """One conversion state: kept coordinates are the very same expressions, imputed ones exactly the keyword
    expression or zero in the required coordinate type, computed groups denote the same geometric part."""
    import sympy
    import vector
    from . import convx

    recs, calls = [], 0
    src_sig = convx.sig_of_sys(c["src"])
    req = c["req"]
    if c["kind"] == "like":
        return recs, 0
    for flavor in ("generic", "momentum"):
        try:
            A, syms = sym_vector("a", src_sig, flavor, by_keywords=(flavor == "momentum"))
        except Exception as ex:
            recs.append({"op": "construct", "sig": [src_sig, None], "backend": "sympy", "flavor": flavor, "tag": "sympy-conv", "case": c,
                         "kind": "exception", "error": f"symbolic operand cannot be constructed: {type(ex).__name__}: {ex}"[:200]})
            continue
        klon, ktmp = sympy.Symbol("k_lon", real=True), sympy.Symbol("k_tmp", real=True)
        kw = {}
        if c["lonkw"] != "none":
            kw[c["lonkw"]] = klon
        if c["tmpkw"] != "none":
            kw[c["tmpkw"]] = ktmp
        if c["lonkw2"] != "none":
            kw[c["lonkw2"]] = klon + 1
        if c["tmpkw2"] != "none":
            kw[c["tmpkw2"]] = ktmp + 1
        if c["kind"] == "to_system":
            name = convx.method_name(c["tgt"], c["spelling"])
        elif c["kind"] == "to_VectorND":
            name = f"to_Vector{c['n']}D"
        else:
            name = f"to_{c['n']}D"
        base = {"op": name, "sig": [src_sig, None], "backend": "sympy", "flavor": flavor, "tag": "sympy-conv", "kw": sorted(kw), "case": c}
        calls += 1
        try:
            with warnings.catch_warnings():
                warnings.simplefilter("ignore")
                out = getattr(A, name)(**kw)
        except TypeError as ex:
            if req["out"] != "TypeError":
                recs.append(dict(base, kind="unexpected-TypeError", error=str(ex)[:200]))
            continue
        except Exception as ex:
            recs.append(dict(base, kind="exception", error=f"{type(ex).__name__}: {ex}"[:200]))
            continue
        if req["out"] == "TypeError":
            recs.append(dict(base, kind="missing-TypeError"))
            continue
        if not isinstance(out, vector.Vector) or not type(out).__module__.endswith("sympy"):
            recs.append(dict(base, kind="not-a-sympy-vector", got=type(out).__name__))
            continue
        rsig = coords.sig_of(out)
        want_sig = convx.sig_of_sys(req["sys"])
        if tuple(rsig) != tuple(want_sig):
            recs.append(dict(base, kind="wrong-system", got=list(rsig), want=list(want_sig)))
            continue
        if isinstance(out, vector.Momentum) != (flavor == "momentum"):
            recs.append(dict(base, kind="flavor-changed"))
        els = list(out.azimuthal.elements) + (list(out.longitudinal.elements) if len(rsig) > 1 else []) + (list(out.temporal.elements) if len(rsig) > 2 else [])
        sfields = dict(zip(coords.field_names(src_sig), syms))
        point = dict(zip(syms, coords.store(list(CONV_POINT[: len(src_sig) + 1]), src_sig)))
        point[klon], point[ktmp] = CONV_KW["lon"], CONV_KW["tmp"]
        args = list(point)
        f = sympy.lambdify(args, [sympy.sympify(e) for e in els], modules="mpmath")
        vals = [mpf(x) if not isinstance(x, mpmath.mpc) else x.real for x in f(*[point[a] for a in args])]
        for fname, expr, val, status in zip(coords.field_names(rsig), els, vals, req["coords"]):
            if status[0] == "keep":
                if sympy.sympify(expr) != sfields[status[1]]:
                    recs.append(dict(base, kind="kept-coordinate-changed", field=fname, got=str(expr)[:100], want=str(sfields[status[1]])))
            elif status[0] == "kw":
                want = klon if status[1] in ("z", "pz", "theta", "eta") else ktmp
                if sympy.sympify(expr) != want:
                    recs.append(dict(base, kind="imputed-value-wrong", field=fname, got=str(expr)[:100], want=str(want)))
            elif status[0] == "zero":
                if not sympy.sympify(expr).is_zero:
                    recs.append(dict(base, kind="imputed-zero-wrong", field=fname, got=str(expr)[:100]))
        # computed groups: the geometric part of the source
        nsrc = len(src_sig) + 1
        cart = coords.denote(vals, rsig)
        for i in range(min(nsrc, len(cart))):
            if not close_num(cart[i], CONV_POINT[i], mpf(10) ** -35 * 20):
                recs.append(dict(base, kind="denotation-changed", component=i, got=mpmath.nstr(cart[i], 25), want=mpmath.nstr(CONV_POINT[i], 25)))
                break
    return recs, calls


def conv_worker(chunk):
    out = {"records": [], "calls": 0, "cases": 0}
    for c in chunk:
        try:
            r, n = run_conversion(c)
        except Exception as ex:
            from . import common as _c
            r, n = [_c.crash_record("conversion", ex, case=c)], 0
        out["records"] += r
        out["calls"] += n
        out["cases"] += 1 if n else 0
    return out


def replay_conversions(cases, procs=16):
    import multiprocessing as mp

    n = max(1, min(procs, len(cases)))
    chunks = [cases[i::n * 4] for i in range(n * 4)]
    chunks = [c for c in chunks if c]
    total = {"records": [], "calls": 0, "cases": 0}
    with mp.get_context("fork").Pool(n) as pool:
        for out in pool.imap_unordered(conv_worker, chunks):
            total["records"] += out["records"]
            total["calls"] += out["calls"]
            total["cases"] += out["cases"]
    return total
