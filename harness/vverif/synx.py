"""Execution of the synonym uses of Synonyms.tla (C14): using a momentum name must be
indistinguishable, bit for bit, from using the geometric name."""
from __future__ import annotations

import copy
import json
import warnings

import numpy

from . import coords, typesx

KW = {"z": 0.75, "theta": 1.25, "eta": -0.5, "t": 9.5, "tau": 3.5}
MOMKW = {"z": "pz", "t": "energy", "tau": "mass", "theta": "theta", "eta": "eta"}


def build(backend, flavor, sig):
    if backend == "sympy":
        return build_sympy(flavor, sig)
    return typesx.build((backend, flavor, len(sig) + 1), tuple(sig), 0)


def build_sympy(flavor, sig):
    import sympy
    import vector
    from vector.backends import sympy as vs

    names = coords.field_names(tuple(sig))
    syms = {n: sympy.Symbol(n, real=True) for n in names}
    az = vs.AzimuthalSympyXY(syms["x"], syms["y"]) if sig[0] == "xy" else vs.AzimuthalSympyRhoPhi(syms["rho"], syms["phi"])
    n = len(sig) + 1
    cls = getattr(vector, ("MomentumSympy" if flavor == "momentum" else "VectorSympy") + f"{n}D")
    if n == 2:
        return cls(azimuthal=az)
    lon = {"z": vs.LongitudinalSympyZ, "theta": vs.LongitudinalSympyTheta, "eta": vs.LongitudinalSympyEta}[sig[1]](syms[sig[1]])
    if n == 3:
        return cls(azimuthal=az, longitudinal=lon)
    tmp = {"t": vs.TemporalSympyT, "tau": vs.TemporalSympyTau}[sig[2]](syms[sig[2]])
    return cls(azimuthal=az, longitudinal=lon, temporal=tmp)


def same(a, b):
    """Bit-for-bit equality of two results (scalars, arrays, Awkward arrays, sympy expressions)."""
    import awkward as ak

    try:
        import sympy

        if isinstance(a, sympy.Basic) or isinstance(b, sympy.Basic):
            return a == b
    except Exception:
        pass
    if isinstance(a, (ak.Array, ak.Record)) or isinstance(b, (ak.Array, ak.Record)):
        la, lb = ak.to_list(a), ak.to_list(b)
        return json.dumps(la, sort_keys=True, default=repr) == json.dumps(lb, sort_keys=True, default=repr)
    aa, bb = numpy.asarray(a), numpy.asarray(b)
    if aa.shape != bb.shape:
        return False
    if aa.dtype.names or bb.dtype.names:
        return aa.dtype == bb.dtype and aa.tobytes() == bb.tobytes()
    return bool(numpy.array_equal(aa, bb, equal_nan=True))


def coords_of(v):
    """(system, list of stored coordinate collections) of any vector."""
    sig = coords.sig_of(v)
    els = list(v.azimuthal.elements)
    if len(sig) > 1:
        els += list(v.longitudinal.elements)
    if len(sig) > 2:
        els += list(v.temporal.elements)
    return sig, els


def same_vector(v1, v2, check_type=True):
    if check_type and type(v1) is not type(v2):
        return f"type {type(v1).__name__} vs {type(v2).__name__}"
    s1, e1 = coords_of(v1)
    s2, e2 = coords_of(v2)
    if s1 != s2:
        return f"system {s1} vs {s2}"
    for n, a, b in zip(coords.field_names(s1), e1, e2):
        if not same(a, b):
            return f"coordinate {n}: {a!r} vs {b!r}"[:200]
    return None


TWIN_PROPS = {2: ["x", "y", "rho", "rho2", "phi"],
              3: ["x", "y", "rho", "phi", "z", "theta", "eta", "costheta", "cottheta", "mag", "mag2"],
              4: ["x", "y", "rho", "phi", "z", "theta", "eta", "mag", "t", "t2", "tau", "tau2", "beta", "gamma", "rapidity"]}


def run_use(u):
    import vector

    recs, calls = [], 0
    use, syn, geo, sig, backend = u["use"], u["syn"], u["geo"], tuple(u["sys"]), u["backend"]
    base = {"op": f"{use}:{syn}", "sig": [sig, None], "backend": backend, "tag": "syn", "syn": syn, "geo": geo}
    with warnings.catch_warnings(), numpy.errstate(all="ignore"):
        warnings.simplefilter("ignore")
        try:
            if use == "get":
                v = build(backend, "momentum", sig)
                calls += 2
                a, b = getattr(v, syn), getattr(v, geo)
                if not same(a, b):
                    recs.append(dict(base, kind="getter-differs", got=repr(a)[:120], want=repr(b)[:120]))
                if backend == "np" and (syn, geo) in {("px", "x"), ("py", "y"), ("pt", "rho"), ("pz", "z"), ("E", "t"), ("e", "t"),
                                                       ("energy", "t"), ("M", "tau"), ("m", "tau"), ("mass", "tau")}:
                    if geo in coords.field_names(sig):
                        calls += 2
                        if not same(v[syn], v[geo]):
                            recs.append(dict(base, kind="index-differs", got=repr(v[syn])[:120], want=repr(v[geo])[:120]))
            elif use == "set":
                v1, v2 = build(backend, "momentum", sig), build(backend, "momentum", sig)
                calls += 2
                if backend == "np":
                    if geo not in coords.field_names(sig):
                        return recs, 0        # NumPy assigns stored columns only
                    val = numpy.array([41.5, -42.25])
                    v1[syn] = val
                    v2[geo] = val
                    if v1.view(numpy.ndarray).tobytes() != v2.view(numpy.ndarray).tobytes() or v1.dtype != v2.dtype:
                        recs.append(dict(base, kind="setter-differs", got=repr(v1)[:150], want=repr(v2)[:150]))
                    # structured item assignment through synonym field names
                    w1, w2 = build(backend, "momentum", sig), build(backend, "momentum", sig)
                    names = coords.field_names(sig)
                    rhs_geo = numpy.array([tuple(float(i + 2) for i in range(len(names)))], dtype=[(n, float) for n in names])
                    rhs_syn = numpy.array([tuple(float(i + 2) for i in range(len(names)))],
                                          dtype=[(syn if n == geo else n, float) for n in names])
                    w1[0:1] = rhs_syn
                    w2[0:1] = rhs_geo
                    if w1.view(numpy.ndarray).tobytes() != w2.view(numpy.ndarray).tobytes():
                        recs.append(dict(base, kind="item-assignment-differs", got=repr(w1)[:150], want=repr(w2)[:150]))
                else:
                    import sympy

                    val = sympy.Symbol("newvalue", real=True) if backend == "sympy" else 41.5
                    err1 = err2 = None
                    try:
                        setattr(v1, syn, val)
                    except Exception as ex:
                        err1 = type(ex).__name__
                    try:
                        setattr(v2, geo, val)
                    except Exception as ex:
                        err2 = type(ex).__name__
                    if err1 != err2:
                        recs.append(dict(base, kind="setter-exception-differs", got=err1, want=err2))
                    elif err1 is None:
                        d = same_vector(v1, v2)
                        if d:
                            recs.append(dict(base, kind="setter-differs", got=d))
                        if not same(getattr(v1, syn), val):
                            recs.append(dict(base, kind="assigned-value-not-read-back", got=repr(getattr(v1, syn))[:100]))
            elif use == "conv":
                v = build(backend, "momentum", sig)
                dim = len(sig) + 1
                calls += 2
                r1, r2 = getattr(v, syn)(), getattr(v, geo)()
                d = same_vector(r1, r2)
                if d:
                    recs.append(dict(base, kind="conversion-differs", got=d))
                # keyword spellings for imputed coordinates on lower-dimensional vectors
                tgt = geo[3:]
                need = []
                if dim == 2:
                    need = [c for c in ("z", "theta", "eta") if tgt.endswith(c) or (c in tgt and len(tgt) > 2 and tgt not in ("xy", "rhophi"))]
                kws_geo, kws_syn = {}, {}
                rest = tgt.replace("xy", "", 1).replace("rhophi", "", 1)
                lonk = next((c for c in ("theta", "eta", "z") if rest.startswith(c)), None)
                tmpk = None
                if lonk:
                    r2_ = rest[len(lonk):]
                    tmpk = "tau" if r2_ == "tau" else ("t" if r2_ == "t" else None)
                if lonk and dim < 3:
                    kws_geo[lonk] = KW[lonk]
                    kws_syn[MOMKW[lonk]] = KW[lonk]
                if tmpk and dim < 4:
                    kws_geo[tmpk] = KW[tmpk]
                    kws_syn[MOMKW[tmpk]] = KW[tmpk]
                if kws_geo:
                    calls += 2
                    r1, r2 = getattr(v, syn)(**kws_syn), getattr(v, geo)(**kws_geo)
                    d = same_vector(r1, r2)
                    if d:
                        recs.append(dict(base, kind="conversion-with-keywords-differs", got=d, kw=kws_syn))
            elif use == "kw":
                v = build(backend, "momentum", sig)
                dim = len(sig) + 1
                lon_kw = syn == "pz"
                if lon_kw and dim != 2:
                    return recs, 0
                for val in (0.0, 2.5, -1.25):
                    for method in (("to_Vector3D", "to_3D", "to_Vector4D", "to_4D") if lon_kw else ("to_Vector4D", "to_4D")):
                        calls += 2
                        r1, r2 = getattr(v, method)(**{syn: val}), getattr(v, method)(**{geo: val})
                        d = same_vector(r1, r2)
                        if d:
                            recs.append(dict(base, kind="keyword-synonym-differs", method=method, value=val, got=d))
            elif use == "field":
                r, c = run_field(u, base)
                recs += r
                calls += c
            elif use == "twin":
                vm, vg = build(backend, "momentum", sig), build(backend, "generic", sig)
                dim = len(sig) + 1
                d = same_vector(vm, vg, check_type=False)
                if d:
                    recs.append(dict(base, kind="construction-differs", got=d))
                for p in TWIN_PROPS[dim]:
                    calls += 2
                    if not same(getattr(vm, p), getattr(vg, p)):
                        recs.append(dict(base, kind="flavor-changes-number", prop=p,
                                         got=repr(getattr(vm, p))[:100], want=repr(getattr(vg, p))[:100]))
                if backend != "sympy":
                    ops = [lambda v: v.scale(2.0), lambda v: v.unit(), lambda v: v.rotateZ(0.3)]
                    if dim == 4:
                        ops += [lambda v: v.boostZ(beta=0.25), lambda v: v.to_beta3()]
                    for i, f in enumerate(ops):
                        calls += 2
                        d = same_vector(f(vm), f(vg), check_type=False)
                        if d:
                            recs.append(dict(base, kind="flavor-changes-number", prop=f"method#{i}", got=d))
                    calls += 2
                    if not same(vm.dot(vm), vg.dot(vg)) or not same(vm.dot(vg), vg.dot(vm)):
                        recs.append(dict(base, kind="flavor-changes-number", prop="dot"))
        except Exception as ex:
            recs.append(dict(base, kind="exception", error=f"{type(ex).__name__}: {ex}"[:300]))
    return recs, calls


FIELD_POINTS = [(1.5, -2.5, 0.75, 9.5), (-0.5, 1.25, -2.0, 7.0), (2.0, 0.5, 1.5, 6.25)]


def field_battery(dim):
    ops = [("rotateZ", lambda v: v.rotateZ(0.3)), ("scale", lambda v: v.scale(2.0)), ("neg", lambda v: -v), ("mul", lambda v: v * 1.5),
           ("add-self", lambda v: v + v), ("sub-self", lambda v: v - v), ("dot-self", lambda v: v.dot(v)), ("abs", lambda v: abs(v)),
           ("rho", lambda v: v.rho), ("phi", lambda v: v.phi), ("x", lambda v: v.x), ("y", lambda v: v.y), ("px", lambda v: v.px),
           ("pt", lambda v: v.pt), ("to_Vector2D", lambda v: v.to_Vector2D()), ("to_Vector3D", lambda v: v.to_Vector3D()),
           ("to_Vector4D", lambda v: v.to_Vector4D()), ("to_xy", lambda v: v.to_xy()), ("to_rhophi", lambda v: v.to_rhophi()),
           ("transform2D", lambda v: v.transform2D({"xx": 1.0, "xy": 2.0, "yx": -1.0, "yy": 0.5})), ("neg2D", lambda v: v.neg2D),
           ("scale2D", lambda v: v.scale2D(3.0)), ("deltaphi-self", lambda v: v.deltaphi(v)), ("unit", lambda v: v.unit()),
           ("isclose-self", lambda v: v.isclose(v)), ("equal-self", lambda v: v == v)]
    if dim >= 3:
        ops += [("rotateX", lambda v: v.rotateX(0.4)), ("rotateY", lambda v: v.rotateY(-0.2)), ("z", lambda v: v.z), ("pz", lambda v: v.pz),
                ("eta", lambda v: v.eta), ("theta", lambda v: v.theta), ("mag", lambda v: v.mag), ("p", lambda v: v.p),
                ("to_xyz", lambda v: v.to_xyz()), ("to_rhophieta", lambda v: v.to_rhophieta()), ("neg3D", lambda v: v.neg3D),
                ("scale3D", lambda v: v.scale3D(3.0)), ("cross-self", lambda v: v.cross(v)), ("deltaR-self", lambda v: v.deltaR(v)),
                ("rotate_axis", lambda v: v.rotate_axis(v.to_Vector3D().rotateX(0.5), 0.25)),
                ("rotate_euler", lambda v: v.rotate_euler(0.1, 0.2, 0.3))]
    if dim >= 4:
        ops += [("t", lambda v: v.t), ("tau", lambda v: v.tau), ("E", lambda v: v.E), ("e", lambda v: v.e), ("energy", lambda v: v.energy),
                ("M", lambda v: v.M), ("m", lambda v: v.m), ("mass", lambda v: v.mass), ("beta", lambda v: v.beta),
                ("boostZ", lambda v: v.boostZ(beta=0.25)), ("boostX", lambda v: v.boostX(gamma=1.5)), ("to_beta3", lambda v: v.to_beta3()),
                ("boostCM-self", lambda v: v.boostCM_of(v)), ("to_xyzt", lambda v: v.to_xyzt()), ("to_rhophietatau", lambda v: v.to_rhophietatau()),
                ("neg4D", lambda v: v.neg4D), ("scale4D", lambda v: v.scale4D(0.5)), ("Et", lambda v: v.Et), ("Mt", lambda v: v.Mt),
                ("rapidity", lambda v: v.rapidity), ("is_timelike", lambda v: v.is_timelike())]
    return ops


def describe_result(r):
    """Comparable description of any result: (class name, fields, nested list of values)."""
    import awkward as ak
    import vector

    if isinstance(r, (ak.Array, ak.Record)):
        name = type(r).__name__
        fields = sorted(ak.fields(r))
        return [name, fields, json.dumps(ak.to_list(r), sort_keys=True, default=repr)]
    if isinstance(r, vector.Vector):
        s, e = coords_of(r)
        return [type(r).__name__, list(s), repr([numpy.asarray(x).tolist() for x in e])]
    return [type(r).__name__ if not isinstance(r, (float, numpy.floating)) else "float", [], repr(numpy.asarray(r).tolist())]


def run_field(u, base):
    """Awkward data whose fields carry the synonym name, against the same data under the geometric name."""
    import awkward as ak
    import vector

    vector.register_awkward()
    sig, syn, geo, backend = tuple(u["sys"]), u["syn"], u["geo"], u["backend"]
    dim = len(sig) + 1
    names = coords.field_names(sig)
    cols = {}
    for k, n in enumerate(names):
        vals = []
        for p in FIELD_POINTS:
            st = coords.store([mpmath_mpf(c) for c in p[:dim]], sig)
            vals.append(float(st[k]))
        cols[n] = vals
    extra = {"charge": [1, -1, 0]}
    recs, calls = [], 0
    for layout in ("flat", "ragged"):
        def make(nm):
            d = {nm.get(n, n): numpy.array(v) for n, v in cols.items()}
            d.update({k: numpy.array(v) for k, v in extra.items()})
            a = ak.zip(d, with_name=f"Momentum{dim}D")
            if layout == "ragged":
                a = ak.unflatten(a, [2, 0, 1])
            a = ak.Array(a, behavior=vector.backends.awkward.behavior)
            return a[0] if (backend == "akrec" and layout == "flat") else a
        if backend == "akrec" and layout == "ragged":
            continue
        vs, vg = make({geo: syn}), make({})
        for name, f in field_battery(dim):
            calls += 2
            es = eg = None
            try:
                rs = f(vs)
            except Exception as ex:
                es = f"{type(ex).__name__}: {ex}"[:160]
            try:
                rg = f(vg)
            except Exception as ex:
                eg = f"{type(ex).__name__}: {ex}"[:160]
            if es or eg:
                if (es is None) != (eg is None):
                    recs.append(dict(base, kind="field-synonym-exception-differs", method=name, layout=layout, got=es, want=eg))
                continue
            ds, dg = describe_result(rs), describe_result(rg)
            # the synonym field may legitimately survive as a pass-through column under its own name
            ds_fields = [geo if x == syn else x for x in ds[1]]
            if ds[0] != dg[0] or sorted(ds_fields) != sorted(dg[1]):
                recs.append(dict(base, kind="field-synonym-changes-type", method=name, layout=layout, got=ds[:2], want=dg[:2]))
                continue
            vals_s = json.loads(ds[2]) if isinstance(rs, (ak.Array, ak.Record)) else ds[2]
            vals_g = json.loads(dg[2]) if isinstance(rg, (ak.Array, ak.Record)) else dg[2]

            def rename(x):
                if isinstance(x, dict):
                    return {(geo if k == syn else k): rename(v) for k, v in x.items()}
                if isinstance(x, list):
                    return [rename(y) for y in x]
                return x

            if json.dumps(rename(vals_s), sort_keys=True) != json.dumps(vals_g, sort_keys=True):
                recs.append(dict(base, kind="field-synonym-changes-values", method=name, layout=layout,
                                 got=json.dumps(rename(vals_s), sort_keys=True)[:200], want=json.dumps(vals_g, sort_keys=True)[:200]))
    return recs, calls


def mpmath_mpf(x):
    import mpmath

    return mpmath.mpf(x)


def worker(chunk):
    out = {"records": [], "calls": 0, "cases": 0}
    for u in chunk:
        try:
            r, c = run_use(u)
        except Exception as ex:
            from . import common as _c
            r, c = [_c.crash_record(f"{u['use']}:{u['syn']}", ex, use=u)], 0
        out["records"] += r
        out["calls"] += c
        out["cases"] += 1
    return out


def replay(uses, procs=16):
    import multiprocessing as mp

    n = max(1, min(procs, len(uses)))
    chunks = [uses[i::n * 4] for i in range(n * 4)]
    chunks = [c for c in chunks if c]
    total = {"records": [], "calls": 0, "cases": 0}
    with mp.get_context("fork").Pool(n) as pool:
        for out in pool.imap_unordered(worker, chunks):
            total["records"] += out["records"]
            total["calls"] += out["calls"]
            total["cases"] += out["cases"]
    return total
