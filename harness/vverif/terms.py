"""Evaluation of specification terms (module Num) to 60-digit numbers.

Only the primitive heads are interpreted here; every definition that combines them
lives in the TLA+ modules.  ``ev`` returns an mpmath ``mpf`` (possibly +-inf).
``wrap_tie`` reports whether a "wrap" node was evaluated at an odd multiple of pi
(where the specification leaves the sign of the result open).
"""
from __future__ import annotations

from fractions import Fraction

import mpmath

mpmath.mp.dps = 60
mpf = mpmath.mpf
PI = mpmath.pi


class Tie(Exception):
    pass


def q(t) -> Fraction:
    assert t[0] == "q", t
    return Fraction(t[1], t[2])


def is_q(t) -> bool:
    return t[0] == "q"


def ev(t, ties=None):
    """Evaluate a term.  `ties` (a list) collects wrap nodes sitting exactly at +-pi."""
    h = t[0]
    if h == "q":
        return mpf(t[1]) / mpf(t[2])
    if h == "pi":
        return +PI
    if h == "inf":
        return mpf("inf")
    if h == "ninf":
        return mpf("-inf")
    if h == "neg":
        return -ev(t[1], ties)
    if h == "abs":
        return abs(ev(t[1], ties))
    if h == "sqrt":
        return mpmath.sqrt(ev(t[1], ties))
    if h == "asinh":
        return mpmath.asinh(ev(t[1], ties))
    if h == "atanh":
        return mpmath.atanh(ev(t[1], ties))
    if h == "acos":
        v = ev(t[1], ties)
        # exact values can exceed 1 by rounding at the 60th digit only
        if v > 1:
            v = mpf(1)
        if v < -1:
            v = mpf(-1)
        return mpmath.acos(v)
    if h == "log":
        return mpmath.log(ev(t[1], ties))
    if h == "atan2":
        return mpmath.atan2(ev(t[1], ties), ev(t[2], ties))
    if h == "wrap":
        v = ev(t[1], ties)
        w = v - 2 * PI * mpmath.floor((v + PI) / (2 * PI))
        # w in [-pi, pi); exact tie when |w| == pi
        if abs(abs(w) - PI) < mpf(10) ** -50:
            if ties is not None:
                ties.append(t)
            return +PI
        return w
    if h == "pow":
        return mpmath.power(ev(t[1], ties), mpf(t[2][1]) / mpf(t[2][2]))
    a = ev(t[1], ties)
    b = ev(t[2], ties)
    if h == "add":
        return a + b
    if h == "sub":
        return a - b
    if h == "mul":
        return a * b
    if h == "div":
        return a / b
    raise ValueError(f"unknown term head {h!r}")
