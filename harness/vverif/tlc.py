"""Running TLC (and tlapm) and parsing what they print.

TLC errors (overflow, parse errors, evaluation errors, deadlock in generators) are
machinery failures: `TLCError` is raised and the caller exits 2, never a verdict.
"""
from __future__ import annotations

import concurrent.futures
import hashlib
import json
import os
import re
import shutil
import subprocess
import tempfile
import time

SPEC_DIR = os.path.join(os.path.dirname(os.path.dirname(os.path.dirname(os.path.abspath(__file__)))), "spec")
JAR = "/opt/veriftools/tla/tla2tools.jar"
DEPS = "/opt/veriftools/tla/CommunityModules-deps.jar"
SCRATCH_ROOT = "/dev/shm" if os.path.isdir("/dev/shm") else tempfile.gettempdir()


class TLCError(Exception):
    pass


class TLCViolation(Exception):
    """An invariant / property of the *specification itself* failed."""

    def __init__(self, msg, output):
        super().__init__(msg)
        self.output = output


def scratch_dir(tag="vv"):
    return tempfile.mkdtemp(prefix=f"vverif-{tag}-", dir=SCRATCH_ROOT)


def spec_hash(*names):
    h = hashlib.sha256()
    for n in sorted(os.listdir(SPEC_DIR)):
        if n.endswith(".tla"):
            with open(os.path.join(SPEC_DIR, n), "rb") as f:
                h.update(n.encode())
                h.update(f.read())
    for n in names:
        h.update(str(n).encode())
    return h.hexdigest()[:20]


_STATS = re.compile(r"(\d+) states generated, (\d+) distinct states found")


def run_tlc(module, cfg_text, *, workers=1, extra=(), timeout=3600, env=None, xmx="4g",
            simulate=None, depth_first=False, cwd=None, allow_violation=False):
    """Run TLC on spec/<module>.tla with the given cfg text.  Returns dict with
    stdout lines, states generated, distinct states, wall time."""
    sd = scratch_dir("tlc")
    try:
        cfg = os.path.join(sd, "run.cfg")
        with open(cfg, "w") as f:
            f.write(cfg_text)
        cmd = ["java", f"-Xmx{xmx}", "-XX:+UseParallelGC", "-XX:ParallelGCThreads=2"]
        if depth_first:
            cmd.append("-Dtlc2.tool.queue.IStateQueue=StateDeque")
        cmd += ["-cp", f"{JAR}:{DEPS}", "tlc2.TLC", "-workers", str(workers),
                "-metadir", os.path.join(sd, "meta"), "-noGenerateSpecTE", "-config", cfg]
        if simulate:
            cmd += ["-simulate", simulate]
        cmd += list(extra)
        cmd.append(os.path.join(SPEC_DIR, module + ".tla"))
        t0 = time.time()
        e = dict(os.environ)
        e.pop("JAVA_TOOL_OPTIONS", None)
        if env:
            e.update(env)
        p = subprocess.run(cmd, stdout=subprocess.PIPE, stderr=subprocess.STDOUT, text=True,
                           timeout=timeout, env=e, cwd=cwd or SPEC_DIR)
        out = p.stdout
        wall = time.time() - t0
        lines = out.splitlines()
        m = None
        for ln in lines:
            mm = _STATS.search(ln)
            if mm:
                m = mm
        res = {"lines": lines, "generated": int(m.group(1)) if m else 0,
               "distinct": int(m.group(2)) if m else 0, "wall_s": wall, "rc": p.returncode,
               "cmd": " ".join(cmd[:1] + ["..."] + cmd[-6:])}
        if "is violated" in out or "Invariant" in out and "violated" in out:
            if allow_violation:
                res["violated"] = True
                return res
            raise TLCViolation(f"specification-level violation in {module}", out[-4000:])
        if p.returncode != 0 or "Error:" in out:
            # TLC exits non-zero on any error
            if allow_violation and "violated" in out:
                res["violated"] = True
                return res
            raise TLCError(f"TLC failed on {module} (rc={p.returncode}):\n" + out[-3000:])
        return res
    finally:
        shutil.rmtree(sd, ignore_errors=True)


def parse_cases(lines, tag="@@CASE "):
    out = []
    for ln in lines:
        if tag not in ln:
            continue
        s = ln.strip()
        if s.startswith('"'):
            s = json.loads(s)
        i = s.index(tag)
        out.append(json.loads(s[i + len(tag):]))
    return out


CASE_GROUPS = ["unary", "unaryvec", "scale", "partial", "rotate", "euler", "quat", "rotaxis", "transform",
               "boostaxis", "binvec", "binnum", "boost", "cmp", "pred", "rawtau", "collinear"]


def _gen_group(args):
    tier, group = args
    cfg = (f'SPECIFICATION Spec\nCONSTANTS\n  Tier = "{tier}"\n  Group = "{group}"\n'
           "INVARIANT WellFormed\nINVARIANT RangeConventions\nINVARIANT Emit\nCHECK_DEADLOCK FALSE\n")
    r = run_tlc("Cases", cfg, workers=1, xmx="3g")
    cases = parse_cases(r["lines"])
    if len(cases) != r["distinct"]:
        raise TLCError(f"group {group}: {len(cases)} cases parsed but {r['distinct']} distinct states")
    return group, cases, r["generated"], r["distinct"], r["wall_s"]


def gen_cases(tier="quick", groups=None, use_cache=True):
    """All one-call cases of Cases.tla for the tier.  Returns (cases, stats)."""
    groups = list(groups or [g for g in CASE_GROUPS if g != "rawtau"])     # rawtau cases are object-storage specific: on request
    key = spec_hash("cases", tier)
    cache_dir = os.path.join(SCRATCH_ROOT, "vverif-cache")
    os.makedirs(cache_dir, exist_ok=True)
    result, stats = [], {"generated": 0, "distinct": 0, "wall_s": 0.0, "groups": {}}
    todo = []
    for g in groups:
        path = os.path.join(cache_dir, f"cases-{key}-{g}.json")
        if use_cache and os.path.exists(path):
            try:
                with open(path) as f:
                    d = json.load(f)
                result += d["cases"]
                stats["generated"] += d["generated"]
                stats["distinct"] += d["distinct"]
                stats["groups"][g] = d["distinct"]
                continue
            except Exception:
                pass
        todo.append(g)
    if todo:
        t0 = time.time()
        with concurrent.futures.ThreadPoolExecutor(max_workers=min(len(todo), 13)) as ex:
            for g, cases, gen, dist, wall in ex.map(_gen_group, [(tier, g) for g in todo]):
                result += cases
                stats["generated"] += gen
                stats["distinct"] += dist
                stats["groups"][g] = dist
                path = os.path.join(cache_dir, f"cases-{key}-{g}.json")
                tmp = path + f".{os.getpid()}.tmp"
                with open(tmp, "w") as f:
                    json.dump({"cases": cases, "generated": gen, "distinct": dist}, f)
                os.replace(tmp, path)
        stats["wall_s"] = time.time() - t0
    return result, stats


def gen_programs(tier="quick", group="all", use_cache=True):
    """Finished behaviours of Laws.tla (TLC checks LawHolds on the way).  Returns (programs, stats)."""
    key = spec_hash("laws", tier, group)
    cache_dir = os.path.join(SCRATCH_ROOT, "vverif-cache")
    os.makedirs(cache_dir, exist_ok=True)
    path = os.path.join(cache_dir, f"laws-{key}.json")
    if use_cache and os.path.exists(path):
        try:
            with open(path) as f:
                d = json.load(f)
            return d["programs"], d["stats"]
        except Exception:
            pass
    cfg = (f'SPECIFICATION Spec\nCONSTANTS\n  Tier = "{tier}"\n  Group = "{group}"\n'
           "INVARIANT LawHolds\nINVARIANT SingleAssignment\nINVARIANT Emit\nCHECK_DEADLOCK FALSE\n")
    r = run_tlc("Laws", cfg, workers=8, xmx="6g")
    progs = parse_cases(r["lines"], "@@PROG ")
    if not progs:
        raise TLCError("Laws: no finished behaviour printed")
    stats = {"generated": r["generated"], "distinct": r["distinct"], "wall_s": r["wall_s"],
             "decided_asserts": sum(sum(1 for x in p["decided"] if x == "T") for p in progs),
             "asserts": sum(len(p["asserts"]) for p in progs)}
    tmp = path + f".{os.getpid()}.tmp"
    with open(tmp, "w") as f:
        json.dump({"programs": progs, "stats": stats}, f)
    os.replace(tmp, path)
    return progs, stats


def run_tlapm(module_path, timeout=1200):
    """Check a proof module with tlapm (fingerprint cache deleted first).  Returns (obligations, proved)."""
    d = os.path.dirname(module_path)
    shutil.rmtree(os.path.join(d, ".tlacache"), ignore_errors=True)
    p = subprocess.run(["tlapm", "--threads", "8", os.path.basename(module_path)], cwd=d, stdout=subprocess.PIPE,
                       stderr=subprocess.STDOUT, text=True, timeout=timeout)
    out = p.stdout
    shutil.rmtree(os.path.join(d, ".tlacache"), ignore_errors=True)
    m = re.search(r"All (\d+) obligations? proved", out)
    if m:
        n = int(m.group(1))
        return n, n, out
    m = re.search(r"(\d+)/(\d+) obligations? failed", out)
    if m:
        return int(m.group(2)), int(m.group(2)) - int(m.group(1)), out
    raise TLCError("tlapm output not understood:\n" + out[-2000:])
