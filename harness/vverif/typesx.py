"""Execution of the type lattice of Types.tla against the real library (C05).

Every TLC state ("@@TYPE": method, operand descriptors, required outcome) is run on small
containers of the requested backend / flavor / dimension in sampled (or all) coordinate
systems; alpha returns the result's container kind, flavor, dimension and coordinate
system, which are compared with the requirement.  The result coordinate system only has
to be a function of the operands' systems: the table is learned and inconsistencies are
violations.
"""
from __future__ import annotations

import hashlib
import itertools
import json
import math

import numpy

from . import coords

mom_name = coords.MOM_NAMES

# two well-conditioned forward timelike points (Cartesian x, y, z, t)
POINTS = [(1.1, -2.2, 3.3, 10.5), (-0.7, 1.9, -2.4, 8.25)]


def stored_floats(pt, sig):
    import mpmath

    vec = [mpmath.mpf(c) for c in pt[: len(sig) + 1]]
    return [float(c) for c in coords.store(vec, sig)]


def names_for(sig, flavor):
    n = coords.field_names(sig)
    return [mom_name[x] for x in n] if flavor == "momentum" else n


def build(desc, sig, which=0):
    import awkward as ak
    import vector

    backend, flavor, dim = desc
    names = names_for(sig, flavor)
    if backend == "obj":
        vals = stored_floats(POINTS[which], sig)
        return vector.obj(**dict(zip(names, vals)))
    cols = [stored_floats(POINTS[(which + i) % 2], sig) for i in range(2)]
    if backend == "np":
        return vector.array({n: numpy.array([c[i] for c in cols]) for i, n in enumerate(names)})
    if (which + len(sig) + len(flavor)) % 2:
        arr = vector.zip({n: ak.Array([c[i] for c in cols]) for i, n in enumerate(names)})
    else:
        arr = vector.Array([dict(zip(names, c)) for c in cols])
    if backend == "akarr":
        return arr
    return arr[0]


def kind_of(x):
    import awkward as ak
    import vector

    if isinstance(x, vector.VectorObject):
        return "obj"
    if isinstance(x, vector.VectorNumpy):
        return "np"
    if isinstance(x, ak.Array):
        return "akarr" if isinstance(x, vector.backends.awkward.VectorAwkward) else "ak-plain-array"
    if isinstance(x, ak.Record):
        return "akrec" if isinstance(x, vector.backends.awkward.VectorAwkward) else "ak-plain-record"
    if isinstance(x, numpy.ndarray):
        return "ndarray"
    if isinstance(x, (bool, int, float, numpy.generic)):
        return "scalar"
    return type(x).__name__


def describe(x):
    import vector

    k = kind_of(x)
    if k in ("obj", "np", "akarr", "akrec"):
        return {"out": "vec", "backend": k, "flavor": "momentum" if isinstance(x, vector.Momentum) else "generic",
                "dim": vector.dim(x), "sys": list(coords.sig_of(x))}
    return {"out": "other", "kind": k}


# scalar / boolean results: a collection exactly when some operand is array-like; an Awkward
# array operand makes it an Awkward array (NumPy x record may give either library's array)
def scalar_kinds(A_d, B_d):
    bs = [A_d[0]] + ([B_d[0]] if B_d[0] != "none" else [])
    if "akarr" in bs:
        return {"ak-plain-array"}
    if "np" in bs:
        return {"ndarray"} if "akrec" not in bs else {"ndarray", "ak-plain-array"}
    return {"scalar"}

MAT = {2: {"xx": 1.0, "xy": 2.0, "yx": 3.0, "yy": 4.0}}
MAT[3] = {a + b: float(1 + 3 * i + j) for i, a in enumerate("xyz") for j, b in enumerate("xyz")}
MAT[4] = {a + b: float(1 + 4 * i + j) for i, a in enumerate("xyzt") for j, b in enumerate("xyzt")}


def method_twin(m, A, B):
    """The method an operator stands for (C05: same value and type), as a thunk; None where there is none."""
    import vector

    n = vector.dim(A) if hasattr(vector, "dim") else None
    norm = {2: "rho", 3: "mag", 4: "tau"}
    if m == "op_add":
        return lambda: A.add(B)
    if m == "op_sub":
        return lambda: A.subtract(B)
    if m == "op_matmul":
        return lambda: A.dot(B)
    if m == "op_eq":
        return lambda: A.equal(B)
    if m == "op_ne":
        return lambda: A.not_equal(B)
    if m in ("op_mul", "op_rmul"):
        return lambda: A.scale(2.0)
    if m == "op_div":
        return lambda: A.scale(1 / 2.0)
    if m == "op_neg":
        return lambda: A.scale(-1)
    if m == "op_abs":
        return lambda: getattr(A, norm[n])
    if m == "op_pow2":
        return lambda: getattr(A, norm[n] + "2")
    if m == "op_pow3":
        return lambda: getattr(A, norm[n]) ** 3
    return None


def plain_values(x):
    """Nested lists of floats / dicts of a result (vector or scalar container), for a tolerant comparison."""
    import awkward as ak
    import vector

    if isinstance(x, (ak.Array, ak.Record)):
        return ak.to_list(x)
    if isinstance(x, vector.VectorObject):
        out = {}
        for g in ("azimuthal", "longitudinal", "temporal"):
            c = getattr(x, g, None)
            if c is not None:
                out.update({k: float(v) for k, v in zip(type(c)._fields, c.elements)}) if hasattr(type(c), "_fields") else out.update({g + str(i): float(v) for i, v in enumerate(c.elements)})
        return out
    a = numpy.asarray(x)
    if a.dtype.names:
        return {nm: a[nm].tolist() for nm in a.dtype.names}
    return a.tolist()


def same_values(a, b, tol=1e-12):
    if isinstance(a, dict) and isinstance(b, dict):
        return set(a) == set(b) and all(same_values(a[k], b[k], tol) for k in a)
    if isinstance(a, (list, tuple)) and isinstance(b, (list, tuple)):
        return len(a) == len(b) and all(same_values(x, y, tol) for x, y in zip(a, b))
    if a is None or b is None:
        return a is None and b is None
    if isinstance(a, bool) or isinstance(b, bool):
        return bool(a) == bool(b)
    try:
        a, b = float(a), float(b)
    except Exception:
        return a == b
    if a != a or b != b:
        return a != a and b != b
    return abs(a - b) <= tol * (1 + abs(a) + abs(b))


def invoke(m, A, B):
    if m in ("add", "subtract", "dot", "equal", "not_equal", "isclose", "is_parallel", "is_antiparallel",
             "is_perpendicular", "deltaphi", "deltaangle", "deltaeta", "deltaR", "deltaR2", "deltaRapidityPhi",
             "deltaRapidityPhi2", "cross", "boost_p4", "boostCM_of_p4", "boost_beta3", "boostCM_of_beta3", "boost",
             "boostCM_of", "like"):
        return getattr(A, m)(B)
    if m == "op_add":
        return A + B
    if m == "op_sub":
        return A - B
    if m == "op_matmul":
        return A @ B
    if m == "op_eq":
        return A == B
    if m == "op_ne":
        return A != B
    if m == "rotate_axis":
        return A.rotate_axis(B, 0.3)
    if m == "op_mul":
        return A * 2.0
    if m == "op_rmul":
        return 2.0 * A
    if m == "op_div":
        return A / 2.0
    if m == "op_neg":
        return -A
    if m == "op_pos":
        return +A
    if m == "op_abs":
        return abs(A)
    if m == "op_pow2":
        return A ** 2
    if m == "op_pow3":
        return A ** 3
    if m in ("scale", "scale2D", "scale3D", "scale4D"):
        return getattr(A, m)(2.0)
    if m in ("neg2D", "neg3D", "neg4D", "rho", "phi", "x", "eta", "mag", "theta", "tau", "rapidity", "gamma"):
        return getattr(A, m)
    if m in ("rotateZ", "rotateX", "rotateY"):
        return getattr(A, m)(0.3)
    if m == "rotate_euler":
        return A.rotate_euler(0.1, 0.2, 0.3)
    if m == "rotate_nautical":
        return A.rotate_nautical(0.1, 0.2, 0.3)
    if m == "rotate_quaternion":
        return A.rotate_quaternion(0.6, 0.8, 0.0, 0.0)
    if m in ("transform2D", "transform3D", "transform4D"):
        return getattr(A, m)(MAT[int(m[9])])
    if m == "boostX_beta":
        return A.boostX(beta=0.3)
    if m == "boostY_gamma":
        return A.boostY(gamma=-1.2)
    if m == "boostZ_beta":
        return A.boostZ(beta=-0.4)
    if m in ("is_timelike", "is_lightlike"):
        return getattr(A, m)()
    return getattr(A, m)()      # unit, to_beta3, to_*


def sys_plan(da, db, full, salt):
    sa = coords.signatures(da)
    sb = coords.signatures(db) if db else [None]
    combos = list(itertools.product(sa, sb))
    if full:
        return combos
    h = int(hashlib.sha256(salt.encode()).hexdigest()[:8], 16)
    k = 2
    return [combos[(h + i * 7) % len(combos)] for i in range(k)]


def run_type_case(tc, full_sys):
    """Returns (records, observations) where observations feed the learned system table."""
    import vector

    m, A_d, B_d, req = tc["m"], tc["a"], tc["b"], tc["req"]
    recs, obs, calls = [], [], 0
    if req["out"] == "NoSuchMethod":
        return recs, obs, 0
    db = B_d[2] if B_d[0] != "none" else 0
    salt = json.dumps([m, A_d, B_d])
    for sa, sb in sys_plan(A_d[2], db, full_sys, salt):
        A = build(A_d, sa, 0)
        B = build(B_d, sb, 1) if db else None
        calls += 1
        base = {"op": m, "a": A_d, "b": B_d, "sig": [sa, sb], "tag": "type", "abackend": A_d[0], "bbackend": B_d[0],
                "backends": "+".join(sorted({A_d[0], B_d[0]} - {"none"}))}
        try:
            with numpy.errstate(all="ignore"):
                out = invoke(m, A, B)
        except TypeError as ex:
            if req["out"] != "TypeError":
                recs.append(dict(base, kind="unexpected-TypeError", error=str(ex)[:200]))
            continue
        except Exception as ex:
            recs.append(dict(base, kind="exception", error=f"{type(ex).__name__}: {ex}"[:300]))
            continue
        if req["out"] == "TypeError":
            recs.append(dict(base, kind="missing-TypeError", got=kind_of(out)))
            continue
        d = describe(out)
        twin = method_twin(m, A, B) if m.startswith("op_") else None
        if twin is not None:
            # an operator gives the same value and type as the method it stands for
            calls += 1
            try:
                with numpy.errstate(all="ignore"):
                    want = twin()
                # (the container of a scalar result is judged by scalar_kinds below: the value is what is compared here)
                if req["out"] == "vec" and type(want) is not type(out):
                    recs.append(dict(base, kind="operator-type-differs-from-method", got=type(out).__name__, want=type(want).__name__))
                elif not same_values(plain_values(out), plain_values(want)):
                    recs.append(dict(base, kind="operator-value-differs-from-method", got=repr(plain_values(out))[:160], want=repr(plain_values(want))[:160]))
            except Exception as ex:
                recs.append(dict(base, kind="exception", error=f"method twin: {type(ex).__name__}: {ex}"[:300]))
        if req["out"] == "vec":
            if d["out"] != "vec":
                recs.append(dict(base, kind="not-a-vector", got=d, want=req))
                continue
            for key in ("backend", "flavor", "dim"):
                if d[key] != req[key]:
                    recs.append(dict(base, kind="wrong-" + key, got=d[key], want=req[key]))
            obs.append(((m, tuple(sa), tuple(sb) if sb else None, d["dim"]), tuple(d["sys"]), (A_d, B_d)))
        else:
            k = d.get("kind", d.get("backend"))
            want = scalar_kinds(A_d, B_d)
            if k not in want:
                recs.append(dict(base, kind="wrong-scalar-container", got=k, want=sorted(want)))
    return recs, obs, calls


def worker(args):
    chunk, full_sys = args
    out = {"records": [], "obs": [], "calls": 0, "cases": 0}
    import warnings

    with warnings.catch_warnings():
        warnings.simplefilter("ignore")
        for tc in chunk:
            try:
                r, o, c = run_type_case(tc, full_sys(tc) if callable(full_sys) else full_sys)
            except Exception as ex:
                from . import common as _c
                r, o, c = [_c.crash_record(tc["m"], ex, a=tc["a"], b=tc["b"], backends="+".join(sorted({tc["a"][0], tc["b"][0]} - {"none"})))], [], 0
            out["records"] += r
            out["obs"] += o
            out["calls"] += c
            out["cases"] += 1
    return out


def _full_obj(tc):
    # every system pairing on same-backend object operands; sampled elsewhere
    return tc["a"][0] == "obj" and tc["b"][0] in ("obj", "none") and tc["a"][1] == "generic" and tc["b"][1] in ("generic", "none")


def _full_all(tc):
    return True


def _register():
    import vector

    vector.register_awkward()


def replay(type_cases, thorough=False, procs=16, registered=False):
    import multiprocessing as mp

    n = max(1, min(procs, len(type_cases)))
    chunks = [type_cases[i::n * 4] for i in range(n * 4)]
    chunks = [c for c in chunks if c]
    total = {"records": [], "obs": [], "calls": 0, "cases": 0}
    policy = _full_all if thorough else _full_obj
    # registered mode runs in fresh interpreters (register_awkward mutates the global registry)
    ctx = mp.get_context("spawn") if registered else mp.get_context("fork")
    with (ctx.Pool(n, initializer=_register) if registered else ctx.Pool(n)) as pool:
        for out in pool.imap_unordered(worker, [(c, policy) for c in chunks]):
            total["records"] += out["records"]
            total["obs"] += out["obs"]
            total["calls"] += out["calls"]
            total["cases"] += out["cases"]
    # learned table: result system must be a function of (method, operand systems)
    table = {}
    for key, sys_, who in total["obs"]:
        table.setdefault(key, {}).setdefault(sys_, who)
    for key, variants in table.items():
        if len(variants) > 1:
            total["records"].append({"kind": "system-not-functional", "op": key[0], "tag": "type",
                                     "sig": [key[1], key[2]], "got": {str(k): v for k, v in variants.items()}})
    total["table_size"] = len(table)
    return total
