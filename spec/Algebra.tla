------------------------------ MODULE Algebra ------------------------------
(***************************************************************************)
(* The documented mathematical meaning of every vector operation, over     *)
(* exact Cartesian components.  A geometric vector is a tuple of terms     *)
(* (module Num): <<x, y>>, <<x, y, z>> or <<x, y, z, t>>.  Nothing in this *)
(* module knows how a vector is *stored* (x-y or rho-phi, z / theta / eta, *)
(* t / tau): results are functions of the denotation only, which is the    *)
(* TLA+ statement of property C01.                                         *)
(*                                                                         *)
(* Provenance: each definition is written from the docstrings of           *)
(* VectorProtocol* in src/vector/_methods.py and docs/index.md (metric     *)
(* (-,-,-,+), active right-handed rotations, active boosts, ROOT Euler and *)
(* quaternion conventions), not from the compute modules.  Angles are      *)
(* given by their rational (cos, sin) pair, boosts by rational beta.       *)
(*                                                                         *)
(* Operands are rational vectors (all components "q" terms); results may   *)
(* be arbitrary terms.  Where the documentation does not define a value    *)
(* (0/0 conventions and the like) the operator returns Undef and nothing   *)
(* is claimed about the value beyond coordinate-system independence.       *)
(***************************************************************************)
EXTENDS Num

Undef == <<"undef">>

Dim(v) == Len(v)
IsRat(v) == \A i \in 1..Len(v) : IsQ(v[i])

\* ----------------------------------------------------------------- planar
VX(v) == v[1]
VY(v) == v[2]
Rho2(v) == Add(Sq(v[1]), Sq(v[2]))
Rho(v)  == Sqrt(Rho2(v))
Phi(v)  == Atan2(v[2], v[1])                 \* in (-pi, pi], 0 for the zero vector

\* ---------------------------------------------------------------- spatial
VZ(v) == v[3]
Mag2(v) == Add(Rho2(v), Sq(v[3]))
Mag(v)  == Sqrt(Mag2(v))
\* cos(theta) = z / mag, "has the same sign as z"; the zero vector has theta = 0
CosTheta(v) == IF Mag2(v) = Zero THEN One ELSE Div(v[3], Mag(v))
Theta(v)    == IF Mag2(v) = Zero THEN Zero
               ELSE IF Rho2(v) = Zero THEN (IF QSign(v[3]) > 0 THEN Zero ELSE Pi)
               ELSE Acos(CosTheta(v))
\* cot(theta) = z / rho, "has the same sign as z"; +-infinity on the axis
CotTheta(v) == IF Rho2(v) # Zero THEN Div(v[3], Rho(v))
               ELSE IF QSign(v[3]) > 0 THEN Inf
               ELSE IF QSign(v[3]) < 0 THEN NInf ELSE Undef
\* pseudorapidity eta = asinh(z / rho) = -ln tan(theta/2); +-infinity on the axis,
\* 0 for the zero vector
Eta(v)      == IF Rho2(v) # Zero THEN Asinh(Div(v[3], Rho(v)))
               ELSE IF QSign(v[3]) > 0 THEN Inf
               ELSE IF QSign(v[3]) < 0 THEN NInf ELSE Zero

\* ---------------------------------------------------------------- lorentz
VT(v) == v[4]
T2(v)   == Sq(v[4])
Tau2(v) == Sub(Sq(v[4]), Mag2(v))            \* metric (-,-,-,+)
\* tau = copysign(sqrt(|t^2 - mag^2|), t^2 - mag^2): negative for spacelike
Tau(v)  == SgnSqrt(Tau2(v))
\* speed |p|/t ("lightlike vectors have beta == 1"); 0/0 is left undefined
Beta(v) == IF v[4] # Zero THEN Div(Mag(v), v[4]) ELSE Undef
\* gamma = t / tau (tau < 0 for spacelike vectors); +infinity on the forward light cone
Gamma(v) == IF Tau2(v) # Zero THEN Div(v[4], Tau(v))
            ELSE IF QSign(v[4]) > 0 THEN Inf ELSE Undef
\* rapidity = 0.5 * log((t + z) / (t - z)), defined when the ratio is positive
Rapidity(v) == LET num == QAdd(v[4], v[3])
                   den == QSub(v[4], v[3])
               IN  IF den # Zero /\ QSign(num) * QSign(den) > 0
                   THEN Mul(Half, Log(QDiv(num, den)))
                   ELSE IF num = Zero /\ den = Zero THEN Undef ELSE Undef
\* transverse energy E sin(theta) and its square; transverse mass^2 = E^2 - pz^2
Et2(v) == IF Mag2(v) = Zero THEN Undef ELSE Div(Mul(T2(v), Rho2(v)), Mag2(v))
Et(v)  == IF Mag2(v) = Zero THEN Undef ELSE Div(Mul(v[4], Rho(v)), Mag(v))
Mt2(v) == Sub(Sq(v[4]), Sq(v[3]))
Mt(v)  == IF QSign(Mt2(v)) >= 0 THEN Sqrt(Mt2(v)) ELSE Undef

\* the regular domain of C08: off the z axis, and (in 4-D) timelike and forward-pointing - where
\* clamping, NaN-replacement and sign conventions are inert
Regular(v) == /\ Add(Sq(v[1]), Sq(v[2])) # Zero
              /\ (Len(v) = 4 => (QSign(Sub(Sq(v[4]), Add(Add(Sq(v[1]), Sq(v[2])), Sq(v[3])))) > 0 /\ QSign(v[4]) > 0))

\* ----------------------------------------------------------- vector space
VAdd(a, b) == [i \in 1..Len(a) |-> Add(a[i], b[i])]
VSub(a, b) == [i \in 1..Len(a) |-> Sub(a[i], b[i])]
VScale(a, f) == [i \in 1..Len(a) |-> Mul(f, a[i])]
VNeg(a) == [i \in 1..Len(a) |-> Neg(a[i])]
\* scaleN / negN: the first N Cartesian components only (for N = dimension this is
\* scale / neg).  For N < dimension the public contract is stated on the *stored*
\* record (the C01 exception); in Cartesian storage it is this.
VScaleN(a, n, f) == [i \in 1..Len(a) |-> IF i <= n THEN Mul(f, a[i]) ELSE a[i]]

\* Euclidean dot in 2-D / 3-D, Minkowski (+t t' - p.p') in 4-D
Dot2(a, b) == Add(Mul(a[1], b[1]), Mul(a[2], b[2]))
Dot3(a, b) == Add(Dot2(a, b), Mul(a[3], b[3]))
Dot4(a, b) == Sub(Mul(a[4], b[4]), Dot3(a, b))
Dot(a, b)  == IF Len(a) = 2 THEN Dot2(a, b)
              ELSE IF Len(a) = 3 THEN Dot3(a, b) ELSE Dot4(a, b)
Cross(a, b) == << Sub(Mul(a[2], b[3]), Mul(a[3], b[2])),
                  Sub(Mul(a[3], b[1]), Mul(a[1], b[3])),
                  Sub(Mul(a[1], b[2]), Mul(a[2], b[1])) >>
P3(v) == <<v[1], v[2], v[3]>>
P2(v) == <<v[1], v[2]>>

\* norm by dimension: rho, mag, tau  (abs(v), v**2, numpy.sqrt ... are functions of it)
Norm2(v) == IF Len(v) = 2 THEN Rho2(v) ELSE IF Len(v) = 3 THEN Mag2(v) ELSE Tau2(v)
Norm(v)  == IF Len(v) = 2 THEN Rho(v)  ELSE IF Len(v) = 3 THEN Mag(v)  ELSE Tau(v)

\* numpy.sqrt / cbrt / power of a vector are functions of its norm: norm^e.
\* Integer powers are defined for every norm (tau < 0 for spacelike vectors), roots only
\* for a non-negative one.
NormPow(v, e) == IF e = Two THEN Sq(Norm(v))
                 ELSE IF e = I(3) THEN Mul(Sq(Norm(v)), Norm(v))
                 ELSE IF e = One THEN Norm(v)
                 ELSE IF QSign(Norm2(v)) < 0 THEN Undef
                 ELSE IF Norm2(v) = Zero THEN (IF QSign(e) > 0 THEN Zero ELSE Undef)
                 ELSE <<"pow", Norm(v), e>>

\* unit(): rho == 1 / mag == 1 / |tau| == 1, parallel to the original; the zero
\* (or, in 4-D, lightlike) vector has no direction: Undef
Unit(v) == LET n2 == Norm2(v)
               n  == IF Len(v) = 4 THEN Sqrt(QAbs(n2)) ELSE Sqrt(n2)
           IN  IF n2 = Zero THEN Undef ELSE [i \in 1..Len(v) |-> Div(v[i], n)]

\* ---------------------------------------------------------------- deltas
\* deltaphi = phi(a) - phi(b) wrapped into [-pi, pi]
DeltaPhi(a, b)   == Wrap(Sub(Phi(a), Phi(b)))
\* angle between the 3-D parts, in [0, pi]; undefined for a zero vector
DeltaAngle(a, b) == IF Mag2(a) = Zero \/ Mag2(b) = Zero THEN Undef
                    ELSE Acos(Div(Dot3(a, b), Mul(Mag(a), Mag(b))))
DeltaEta(a, b)   == IF IsInf(Eta(a)) \/ IsInf(Eta(b)) THEN Undef
                    ELSE Sub(Eta(a), Eta(b))
DeltaR2(a, b)    == IF DeltaEta(a, b) = Undef THEN Undef
                    ELSE Add(Sq(DeltaPhi(a, b)), Sq(DeltaEta(a, b)))
DeltaR(a, b)     == IF DeltaR2(a, b) = Undef THEN Undef ELSE Sqrt(DeltaR2(a, b))
DeltaRapPhi2(a, b) == IF Rapidity(a) = Undef \/ Rapidity(b) = Undef THEN Undef
                      ELSE Add(Sq(DeltaPhi(a, b)), Sq(Sub(Rapidity(a), Rapidity(b))))
DeltaRapPhi(a, b)  == IF DeltaRapPhi2(a, b) = Undef THEN Undef
                      ELSE Sqrt(DeltaRapPhi2(a, b))

\* -------------------------------------------------------------- rotations
\* An angle is <<c, s>> = (cos, sin).  Active, right-handed.
AngNeg(g)    == <<g[1], Neg(g[2])>>
AngAdd(g, h) == <<Sub(Mul(g[1], h[1]), Mul(g[2], h[2])),
                  Add(Mul(g[2], h[1]), Mul(g[1], h[2]))>>
Keep(v, w)   == \* w (3 components) with the untouched higher components of v
                IF Len(v) = 4 THEN <<w[1], w[2], w[3], v[4]>> ELSE w
RotZ2(v, g)  == <<Sub(Mul(g[1], v[1]), Mul(g[2], v[2])),
                  Add(Mul(g[2], v[1]), Mul(g[1], v[2]))>>
RotZ(v, g)   == LET w == RotZ2(v, g)
                IN  IF Len(v) = 2 THEN w
                    ELSE IF Len(v) = 3 THEN <<w[1], w[2], v[3]>>
                    ELSE <<w[1], w[2], v[3], v[4]>>
RotX(v, g)   == Keep(v, <<v[1],
                          Sub(Mul(g[1], v[2]), Mul(g[2], v[3])),
                          Add(Mul(g[2], v[2]), Mul(g[1], v[3]))>>)
RotY(v, g)   == Keep(v, <<Add(Mul(g[1], v[1]), Mul(g[2], v[3])),
                          v[2],
                          Sub(Mul(g[1], v[3]), Mul(g[2], v[1]))>>)
RotAxisLetter(v, ax, g) == IF ax = "x" THEN RotX(v, g)
                           ELSE IF ax = "y" THEN RotY(v, g) ELSE RotZ(v, g)

\* Rodrigues: v cos a + (u x v) sin a + u (u.v)(1 - cos a), u = axis / |axis|
RotAxis(v, axis, g) ==
    IF Mag2(axis) = Zero THEN Undef ELSE
    LET n  == Mag(axis)
        u  == <<Div(axis[1], n), Div(axis[2], n), Div(axis[3], n)>>
        p  == P3(v)
        ud == Dot3(u, p)
        uc == Cross(u, p)
        c1 == Sub(One, g[1])
    IN  Keep(v, [i \in 1..3 |->
                   Add(Add(Mul(g[1], p[i]), Mul(g[2], uc[i])), Mul(Mul(c1, ud), u[i]))])

\* rotate_euler(phi, theta, psi, order "abc") = A(-psi) . B(-theta) . C(-phi)
\* (the source's documented convention: Wikipedia's matrix for "A1 B2 C3" with ROOT's
\* argument order and ROOT's opposite sense of each angle)
RotEuler(v, gphi, gtheta, gpsi, order) ==
    RotAxisLetter(RotAxisLetter(RotAxisLetter(v, order[3], AngNeg(gphi)),
                                order[2], AngNeg(gtheta)),
                  order[1], AngNeg(gpsi))
\* rotate_nautical(yaw, pitch, roll) = rotate_euler(roll, pitch, yaw, "zyx")
RotNautical(v, gyaw, gpitch, groll) == RotEuler(v, groll, gpitch, gyaw, <<"z", "y", "x">>)

\* unit quaternion (u; i, j, k) = (cos a/2; n sin a/2): rotation by a about n
RotQuat(v, q) ==
    LET u == q[1]  i == q[2]  j == q[3]  k == q[4]
        p == P3(v)
        r == << <<Sub(One, Mul(Two, Add(Sq(j), Sq(k)))), Mul(Two, Sub(Mul(i, j), Mul(k, u))), Mul(Two, Add(Mul(i, k), Mul(j, u)))>>,
                <<Mul(Two, Add(Mul(i, j), Mul(k, u))), Sub(One, Mul(Two, Add(Sq(i), Sq(k)))), Mul(Two, Sub(Mul(j, k), Mul(i, u)))>>,
                <<Mul(Two, Sub(Mul(i, k), Mul(j, u))), Mul(Two, Add(Mul(j, k), Mul(i, u))), Sub(One, Mul(Two, Add(Sq(i), Sq(j))))>> >>
    IN  Keep(v, [a \in 1..3 |-> Add(Add(Mul(r[a][1], p[1]), Mul(r[a][2], p[2])), Mul(r[a][3], p[3]))])

\* general linear transforms: m is a tuple of rows
MatVec(m, p) == [a \in 1..Len(m) |->
                   IF Len(p) = 2 THEN Add(Mul(m[a][1], p[1]), Mul(m[a][2], p[2]))
                   ELSE IF Len(p) = 3 THEN Add(Add(Mul(m[a][1], p[1]), Mul(m[a][2], p[2])), Mul(m[a][3], p[3]))
                   ELSE Add(Add(Add(Mul(m[a][1], p[1]), Mul(m[a][2], p[2])), Mul(m[a][3], p[3])), Mul(m[a][4], p[4]))]
\* transformN acts on the first N Cartesian components (N = dimension here; the
\* lower-dimensional transforms on higher-dimensional vectors are the C01 exception)
TransformN(v, m) == LET n == Len(m)
                        w == MatVec(m, [i \in 1..n |-> v[i]])
                    IN  [i \in 1..Len(v) |-> IF i <= n THEN w[i] ELSE v[i]]

\* ----------------------------------------------------------------- boosts
\* Active boost of v by velocity bvec = <<bx, by, bz>> (|b| < 1):
\*   t' = g (t + b.p),  p' = p + ((g - 1)(b.p)/b^2 + g t) b
BoostBeta3(v, b) ==
    LET b2 == Dot3(b, b)
    IN  IF ~(IsQ(b2) /\ QLt(b2, One)) THEN Undef
        ELSE IF b2 = Zero THEN v
        ELSE LET g  == Div(One, Sqrt(Sub(One, b2)))
                 bp == Dot3(b, v)
                 k  == Add(Div(Mul(Sub(g, One), bp), b2), Mul(g, v[4]))
             IN  << Add(v[1], Mul(k, b[1])), Add(v[2], Mul(k, b[2])),
                    Add(v[3], Mul(k, b[3])), Mul(g, Add(v[4], bp)) >>
\* to_beta3: p / t  ("lightlike velocities have mag == 1")
ToBeta3(p) == IF p[4] = Zero THEN Undef
              ELSE <<Div(p[1], p[4]), Div(p[2], p[4]), Div(p[3], p[4])>>
\* boost_p4(p) = boost_beta3(p.to_beta3()), for timelike boosters
BoostP4(v, p) == IF ~(QSign(Tau2(p)) > 0) THEN Undef ELSE BoostBeta3(v, ToBeta3(p))
Neg3(v) == VScaleN(v, 3, MinusOne)
BoostCMP4(v, p)    == BoostP4(v, Neg3(p))
BoostCMBeta3(v, b) == BoostBeta3(v, VNeg(b))
AxisVec(ax, q) == IF ax = "x" THEN <<q, Zero, Zero>>
                  ELSE IF ax = "y" THEN <<Zero, q, Zero>> ELSE <<Zero, Zero, q>>
BoostAxisBeta(v, ax, beta) == BoostBeta3(v, AxisVec(ax, beta))
\* gamma spelling: |gamma| >= 1 gives the speed, its sign the direction
BetaOfGamma(gm) == LET g2 == Sq(gm)
                       b  == Sqrt(Sub(One, Div(One, g2)))
                   IN  IF QSign(gm) < 0 THEN Neg(b) ELSE b
BoostAxisGamma(v, ax, gm) ==
    IF QLt(QAbs(gm), One) THEN Undef
    ELSE LET b == BetaOfGamma(gm)
         IN  IF IsQ(b) THEN BoostAxisBeta(v, ax, b)
             ELSE \* irrational beta: write the axis boost directly
                  LET g  == QAbs(gm)
                      bg == Mul(b, g)
                      i  == IF ax = "x" THEN 1 ELSE IF ax = "y" THEN 2 ELSE 3
                  IN  [j \in 1..4 |-> IF j = i THEN Add(Mul(g, v[i]), Mul(bg, v[4]))
                                      ELSE IF j = 4 THEN Add(Mul(bg, v[i]), Mul(g, v[4]))
                                      ELSE v[j]]

\* ------------------------------------------------------------- predicates
\* A boolean result is "T", "F" or "either" (an exact tie of a strict
\* inequality against a tolerance: the documentation does not pick a side).
TT == "T"
FF == "F"
BoolStr(b) == IF b THEN TT ELSE FF
Tri(sign, wantPositive) == IF sign = 0 THEN "either"
                           ELSE IF wantPositive THEN BoolStr(sign > 0) ELSE BoolStr(sign < 0)

\* cosine of the angle between the (2-D or 3-D parts of) a and b compared with k:
\* sign of  cos - k  =  sign of  dot - k |a||b|   (undefined for a zero vector)
CosMinus(a, b, k) ==
    LET n  == IF Len(a) = 2 THEN 2 ELSE 3
        d  == IF n = 2 THEN Dot2(a, b) ELSE Dot3(a, b)
        m  == IF n = 2 THEN QMul(Rho2(a), Rho2(b)) ELSE QMul(Mag2(a), Mag2(b))
    IN  SignPMinusKSqrt(d, k, m)
HasDirection(a) == IF Len(a) = 2 THEN Rho2(a) # Zero ELSE Mag2(a) # Zero
\* is_parallel:       cos > 1 - tol        is_antiparallel: cos < -(1 - tol)
\* is_perpendicular:  |cos| < tol
IsParallel(a, b, tol) == IF ~(HasDirection(a) /\ HasDirection(b)) THEN "either"
                         ELSE Tri(CosMinus(a, b, QSub(One, tol)), TRUE)
IsAntiparallel(a, b, tol) == IF ~(HasDirection(a) /\ HasDirection(b)) THEN "either"
                             ELSE Tri(CosMinus(a, b, QSub(tol, One)), FALSE)
IsPerpendicular(a, b, tol) ==
    IF ~(HasDirection(a) /\ HasDirection(b)) THEN "either"
    ELSE LET up == CosMinus(a, b, tol)            \* cos - tol
             lo == CosMinus(a, b, QNeg(tol))      \* cos + tol
         IN  IF up < 0 /\ lo > 0 THEN TT
             ELSE IF up > 0 \/ lo < 0 THEN FF ELSE "either"

\* causal classification with a common tolerance: follows the sign of t^2 - mag^2
\*   timelike  tau2 >  tol,  spacelike  tau2 < -tol,  lightlike  |tau2| <= tol
\* The three never overlap and never leave a vector unclassified: on the boundary |tau2| = tol the vector is
\* lightlike.  A boundary value is marked "tieT" / "tieF" (the documented answer, which rounding in a non-Cartesian
\* storage or an inexactly representable tolerance may flip; it is binding where the arithmetic is exact).
TriTie(sign, wantPositive) == IF sign = 0 THEN "tieF"
                              ELSE IF wantPositive THEN BoolStr(sign > 0) ELSE BoolStr(sign < 0)
Causal3(n2, tol) == LET s1 == QSign(QSub(n2, tol))
                        s2 == QSign(QAdd(n2, tol))
                    IN  IF s1 < 0 /\ s2 > 0 THEN TT
                        ELSE IF s1 > 0 \/ s2 < 0 THEN FF ELSE "tieT"
IsTimelike(v, tol)  == TriTie(QSign(QSub(Tau2(v), tol)), TRUE)
IsSpacelike(v, tol) == TriTie(QSign(QAdd(Tau2(v), tol)), FALSE)
IsLightlike(v, tol) == Causal3(Tau2(v), tol)

\* ---- proper-time storage given directly (the user's tau need not come from a real t):
\* a = <<x, y, z, tau>> with tau ANY rational.  The documented conventions: tau2 is the signed square of
\* tau (negative tau = spacelike), t2 = max(tau2 + mag2, 0) and t = sqrt(t2) are non-negative and never NaN,
\* and the causal class follows the sign of t^2 - mag^2 for that t.
RawTau2(a)  == QMul(a[4], QAbs(a[4]))
RawT2(a)    == QMax(QAdd(RawTau2(a), Mag2(<<a[1], a[2], a[3]>>)), Zero)
RawT(a)     == Sqrt(RawT2(a))
\* the class follows the sign of t^2 - mag^2 with the t the vector really has (the clamped one)
RawNorm2(a) == QSub(RawT2(a), Mag2(<<a[1], a[2], a[3]>>))
RawIsTimelike(a, tol)  == TriTie(QSign(QSub(RawNorm2(a), tol)), TRUE)
RawIsSpacelike(a, tol) == TriTie(QSign(QAdd(RawNorm2(a), tol)), FALSE)
RawIsLightlike(a, tol) == Causal3(RawNorm2(a), tol)
=============================================================================
