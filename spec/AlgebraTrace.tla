---------------------------- MODULE AlgebraTrace ----------------------------
(***************************************************************************)
(* code -> spec for the value-level properties (C01, C02): a trace is a    *)
(* sequence of public calls made on real (60-digit) object vectors whose   *)
(* operands were stored in arbitrary coordinate systems; each event logs   *)
(* the operation, the operands' *denotation* (exact Cartesian rationals),  *)
(* the parameters, the coordinate systems used, and the result projected   *)
(* back to exact rationals (alpha with exact snapping).  TLC evaluates the *)
(* specification's Eval on the denotation - it never sees the storage -    *)
(* and requires exact equality whenever both sides are exact: the TLA+     *)
(* statement that results are a function of the denotation only.           *)
(***************************************************************************)
EXTENDS Eval, Json, IOUtils, TLCExt

Events == ndJsonDeserialize(IOEnv.TRACE_FILE)
VARIABLE i

ExactRes(r) == \/ r[1] = "num" /\ IsQ(r[2])
               \/ r[1] = "vec" /\ IsRat(r[2])
               \/ r[1] = "bool" /\ r[2] \in {"T", "F"}
Verdict(e) ==
    LET want == Eval(e.op, e.a, e.b, e.p) IN
    IF e.got[1] = "inexact" \/ ~ExactRes(want) THEN "not-decided"
    ELSE IF e.got[1] # want[1] THEN "wrong-kind-of-result"
    ELSE IF e.got # want THEN "result-differs-from-specification"
    ELSE "ok"

Init == i = 1
Next == /\ i <= Len(Events)
        /\ LET v == Verdict(Events[i])
           IN  /\ (v \notin {"ok", "not-decided"} => PrintT("@@VERDICT " \o ToJson([line |-> i, verdict |-> v, want |-> Eval(Events[i].op, Events[i].a, Events[i].b, Events[i].p)])))
               /\ TLCSet(1, TLCGet(1) + (IF v = "ok" THEN 1 ELSE 0))
               /\ TLCSet(2, TLCGet(2) + (IF v = "not-decided" THEN 1 ELSE 0))
        /\ i' = i + 1
TraceSpec == Init /\ [][Next]_i
AllConsumed == i = Len(Events) + 1 => PrintT("@@SUMMARY " \o ToJson([events |-> Len(Events), accepted |-> TLCGet(1), undecided |-> TLCGet(2)]))
ASSUME TLCSet(1, 0) /\ TLCSet(2, 0)
=============================================================================
