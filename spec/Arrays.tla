------------------------------- MODULE Arrays -------------------------------
(***************************************************************************)
(* Arrays of vectors: the structure-level specification behind C17         *)
(* (reductions), C18 (Awkward structure and extra fields), C19 (NumPy      *)
(* indexing) and the layouts of C03.                                       *)
(*                                                                         *)
(* An array is a nested sequence whose leaves are element identifiers      *)
(* (indices into the pool `Elems` of exact Cartesian vectors) or the       *)
(* missing value Null.  The specification defines                          *)
(*   - reductions as component-wise Cartesian sums along an axis           *)
(*     (Awkward semantics for ragged lists: empty lists sum to the zero    *)
(*     vector, a missing list stays missing, axis 0 sums by position),     *)
(*   - counts, and counts of elements that are not the zero vector,        *)
(*   - the element mapping of NumPy index expressions (row-major),         *)
(*   - MapLayout: an element-wise operation keeps the list structure and   *)
(*     the positions of missing values.                                    *)
(* TLC enumerates the small layouts / shapes exhaustively and prints each  *)
(* case ("@@ARR") with its exact expected result.                          *)
(***************************************************************************)
EXTENDS Num, Json, FiniteSets

CONSTANT Part          \* "reduce" | "index" | "layout"
VARIABLE c

Null == 0               \* a missing element
NullList == <<-1>>      \* a missing list
NullOut == <<"null">>   \* a missing entry of an expected result
\* pool of elements: exact Cartesian (x, y, z, t); lower dimensions use a prefix
\* (1-5 timelike, 6 the zero vector, 7 lightlike, 8 spacelike: none of 7, 8 is the zero vector)
Elems == << <<I(3), I(4), I(12), I(85)>>, <<I(-9), I(12), I(-20), I(65)>>, <<I(1), I(2), I(2), I(7)>>,
            <<I(1), I(-1), I(2), I(3)>>, <<I(5), I(1), I(-12), I(14)>>, <<I(0), I(0), I(0), I(0)>>,
            <<I(3), I(4), I(12), I(13)>>, <<I(3), I(-4), I(12), I(5)>> >>
ZeroId == 6
\* reductions also use elements with a single non-zero component (9: z only, 10: t only, 11: y only): whether such an
\* element is the zero vector depends on the dimension the array has
ElemsX == Elems \o << <<I(0), I(0), I(5), I(0)>>, <<I(0), I(0), I(0), I(3)>>, <<I(0), I(-2), I(0), I(0)>> >>
Vec(e, n) == [k \in 1..n |-> ElemsX[e][k]]
IsZeroIn(e, n) == \A k \in 1..n : ElemsX[e][k] = Zero
ZeroVec(n) == [k \in 1..n |-> Zero]
VSum(a, b) == [k \in 1..Len(a) |-> QAdd(a[k], b[k])]
IsLeaf(x) == x \in 1..Len(ElemsX)

RECURSIVE SumSeq(_, _)
\* sum of a flat sequence of element ids (missing entries are skipped, as ak.sum does)
SumSeq(s, n) == IF s = <<>> THEN ZeroVec(n)
                ELSE IF Head(s) = Null THEN SumSeq(Tail(s), n)
                ELSE VSum(Vec(Head(s), n), SumSeq(Tail(s), n))
RECURSIVE CountSeq(_)
CountSeq(s) == IF s = <<>> THEN 0 ELSE (IF Head(s) = Null THEN 0 ELSE 1) + CountSeq(Tail(s))
RECURSIVE CountNZ(_, _)
CountNZ(s, n) == IF s = <<>> THEN 0 ELSE (IF Head(s) = Null \/ IsZeroIn(Head(s), n) THEN 0 ELSE 1) + CountNZ(Tail(s), n)
\* depth is explicit (TLC cannot ask whether a value is a number or a sequence):
\* depth 1 = sequence of element ids (0 = missing), depth 2 = sequence of depth-1 lists
\* (NullList = missing list), depth 3 = sequence of depth-2 lists
RECURSIVE Flatten1(_)
Flatten1(s) == IF s = <<>> THEN <<>> ELSE IF Head(s) = Null THEN Flatten1(Tail(s)) ELSE <<Head(s)>> \o Flatten1(Tail(s))
RECURSIVE Flatten2(_)
Flatten2(ll) == IF ll = <<>> THEN <<>> ELSE (IF Head(ll) = NullList THEN <<>> ELSE Flatten1(Head(ll))) \o Flatten2(Tail(ll))
MaxLen(ll) == LET ls == { Len(ll[i]) : i \in { j \in 1..Len(ll) : ll[j] # NullList } } IN IF ls = {} THEN 0 ELSE CHOOSE m \in ls : \A k \in ls : k <= m
\* column j of a ragged list of lists
Column(ll, j) == LET idx == { i \in 1..Len(ll) : ll[i] # NullList /\ Len(ll[i]) >= j }
                     f[i \in 0..Len(ll)] == IF i = 0 THEN <<>> ELSE IF i \in idx THEN Append(f[i - 1], ll[i][j]) ELSE f[i - 1]
                 IN  f[Len(ll)]

\* ------------------------------------------------------------ reductions
\* NumPy: regular 1-D / 2-D arrays (sequences of rows)
NpArrays == { <<1, 2, 3>>, <<2>>, <<4, 5, 1, 2>>, <<6, 1, 6>>, <<7, 6, 8>>, <<7, 7>>, <<9, 10, 6>>, <<11, 9>> }
NpMatrices == { << <<1, 2>>, <<3, 4>> >>, << <<1, 2, 3>>, <<4, 5, 6>> >>, << <<2>>, <<3>>, <<6>> >>, << <<7, 6>>, <<8, 1>> >>, << <<9, 10>>, <<11, 6>> >> }
\* Awkward: ragged, with empty and missing lists and missing elements
Ragged == { << <<1, 2>>, <<>>, <<3>> >>, << <<1>>, NullList, <<2, 3, 4>> >>, << <<>>, <<>> >>,
            << <<1, 6>>, <<6>>, <<2, 5, 6>> >>, << <<1, Null, 2>>, <<3>> >>, << <<7, 6>>, <<8>>, <<>> >>,
            << <<9, 6>>, <<10>>, <<11, 9, 10>> >> }
NestedRagged == { << << <<1>>, <<>> >>, << <<2, 3>> >> >>, << << <<1, 2>>, <<3>> >>, <<>>, << <<4>> >> >> }

ReduceCase(lib, arr, shape, op, axis, keepdims, dim, exp) ==
    [part |-> "reduce", lib |-> lib, arr |-> arr, shape |-> shape, op |-> op, axis |-> axis, keepdims |-> keepdims, dim |-> dim, exp |-> exp]
VecsOf(seqOfSeqs, n) == [i \in 1..Len(seqOfSeqs) |-> SumSeq(seqOfSeqs[i], n)]
Cols(m) == [j \in 1..Len(m[1]) |-> [i \in 1..Len(m) |-> m[i][j]]]
ReduceNp1 ==
    \* numpy.sum over 1-D arrays (axis None / 0 / -1)
    { ReduceCase("np", a, <<Len(a)>>, "sum", ax, "F", n, <<"vec", SumSeq(a, n)>>) : a \in NpArrays, ax \in {"None", "0", "-1"}, n \in 2..4 }
    \cup { ReduceCase("np", a, <<Len(a)>>, "sum", "0", "T", n, <<"vecs", << SumSeq(a, n) >> >>) : a \in NpArrays, n \in 2..4 }
    \cup { ReduceCase("np", a, <<Len(a)>>, "count_nonzero", "None", "F", n, <<"int", CountNZ(a, n)>>) : a \in NpArrays, n \in 2..4 }
ReduceNp2 ==
    \* numpy.sum over 2-D arrays
    { ReduceCase("np", m, <<Len(m), Len(m[1])>>, "sum", "None", "F", n, <<"vec", SumSeq(Flatten2(m), n)>>) : m \in NpMatrices, n \in 2..4 }
    \cup { ReduceCase("np", m, <<Len(m), Len(m[1])>>, "sum", "0", kd, n, <<"vecs", VecsOf(Cols(m), n)>>) : m \in NpMatrices, kd \in {"F", "T"}, n \in 2..4 }
    \cup { ReduceCase("np", m, <<Len(m), Len(m[1])>>, "sum", ax, kd, n, <<"vecs", VecsOf(m, n)>>) : m \in NpMatrices, ax \in {"1", "-1"}, kd \in {"F", "T"}, n \in 2..4 }
    \* count_nonzero
    \cup { ReduceCase("np", m, <<Len(m), Len(m[1])>>, "count_nonzero", "1", "F", n, <<"ints", [i \in 1..Len(m) |-> CountNZ(m[i], n)]>>) : m \in NpMatrices, n \in 2..4 }
    \cup { ReduceCase("np", m, <<Len(m), Len(m[1])>>, "count_nonzero", "0", "F", n, <<"ints", [j \in 1..Len(m[1]) |-> CountNZ(Cols(m)[j], n)]>>) : m \in NpMatrices, n \in 2..4 }
ReduceAk ==
    \* ak.sum over ragged arrays: axis 1 (per list; empty -> zero vector, missing list -> missing), axis 0 (by position), None
    { ReduceCase("ak", r, <<>>, "sum", ax, "F", n,
                      <<"optvecs", [i \in 1..Len(r) |-> IF r[i] = NullList THEN NullOut ELSE SumSeq(r[i], n)]>>) : r \in Ragged, ax \in {"1", "-1"}, n \in 2..4 }
    \cup { ReduceCase("ak", r, <<>>, "sum", "0", "F", n, <<"vecs", [j \in 1..MaxLen(r) |-> SumSeq(Column(r, j), n)]>>) : r \in Ragged, n \in 2..4 }
    \cup { ReduceCase("ak", r, <<>>, "sum", "None", "F", n, <<"vec", SumSeq(Flatten2(r), n)>>) : r \in Ragged, n \in 2..4 }
    \cup { ReduceCase("ak", r, <<>>, "count", "1", "F", n,
                      <<"optints", [i \in 1..Len(r) |-> IF r[i] = NullList THEN NullOut ELSE CountSeq(r[i])]>>) : r \in Ragged, n \in 2..4 }
    \cup { ReduceCase("ak", r, <<>>, "count_nonzero", "1", "F", n,
                      <<"optints", [i \in 1..Len(r) |-> IF r[i] = NullList THEN NullOut ELSE CountNZ(r[i], n)]>>) : r \in Ragged, n \in 2..4 }
    \cup { ReduceCase("ak", r, <<>>, "sum", "1", "T", n,
                      <<"optvecs1", [i \in 1..Len(r) |-> IF r[i] = NullList THEN NullOut ELSE SumSeq(r[i], n)]>>) : r \in Ragged, n \in 2..4 }
ReduceAk3 ==
    \* depth 3: innermost axis
    { ReduceCase("ak", r, <<>>, "sum", "-1", "F", n,
                      <<"nested", [i \in 1..Len(r) |-> [j \in 1..Len(r[i]) |-> SumSeq(r[i][j], n)]]>>) : r \in NestedRagged, n \in 2..4 }

\* ------------------------------------------------------------ NumPy indexing
\* a regular array of shape sh holds element ids 1..Prod(sh) cyclically from the pool, row-major
RECURSIVE Prod(_)
Prod(s) == IF s = <<>> THEN 1 ELSE Head(s) * Prod(Tail(s))
Shapes == { <<3>>, <<2, 3>>, <<3, 2>>, <<2, 2, 3>>, <<1, 3, 2>> }
\* flat (row-major, 0-based) position of a full index tuple
RECURSIVE FlatPos(_, _)
FlatPos(idx, sh) == IF idx = <<>> THEN 0 ELSE Head(idx) * Prod(Tail(sh)) + FlatPos(Tail(idx), Tail(sh))
IndexSets(sh) == IF Len(sh) = 1 THEN { <<i>> : i \in 0..(sh[1] - 1) }
                 ELSE IF Len(sh) = 2 THEN { <<i, j>> : i \in 0..(sh[1] - 1), j \in 0..(sh[2] - 1) }
                 ELSE { <<i, j, k>> : i \in 0..(sh[1] - 1), j \in 0..(sh[2] - 1), k \in 0..(sh[3] - 1) }
RangeSeq(lo, hi) == [k \in 1..(IF hi > lo THEN hi - lo ELSE 0) |-> lo + k - 1]
IndexCase(sh, kind, arg, positions, rshape) ==
    [part |-> "index", shape |-> sh, kind |-> kind, arg |-> arg, positions |-> positions, rshape |-> rshape]
IndexCases ==
    \* a full integer index selects one element: a vector object
    UNION { { IndexCase(sh, "int", idx, <<FlatPos(idx, sh)>>, <<>>) : idx \in IndexSets(sh) } : sh \in Shapes }
    \* negative index on the first axis of a 1-D array
    \cup { IndexCase(<<3>>, "int", <<-1>>, <<2>>, <<>>) }
    \* a first-axis integer on a higher-dimensional array selects a sub-array
    \cup UNION { { IndexCase(sh, "row", <<i>>, RangeSeq(i * Prod(Tail(sh)), (i + 1) * Prod(Tail(sh))), Tail(sh)) : i \in 0..(sh[1] - 1) }
                   : sh \in { s \in Shapes : Len(s) > 1 } }
    \* slices of the first axis [lo:hi]
    \* (NumPy clips a slice bound that exceeds the extent)
    \cup { LET h == IF hi > sh[1] THEN sh[1] ELSE hi
               n == IF h > lo THEN h - lo ELSE 0
           IN  IndexCase(sh, "slice", <<lo, hi>>, RangeSeq(lo * Prod(Tail(sh)), (lo + n) * Prod(Tail(sh))), <<n>> \o Tail(sh))
             : sh \in Shapes, lo \in 0..1, hi \in 1..3 }
    \* reshape to a flat array and to (Prod, 1); view; copy; pickle: all elements in order
    \cup { IndexCase(sh, k, <<>>, RangeSeq(0, Prod(sh)), IF k = "ravel" THEN <<Prod(sh)>> ELSE IF k = "column" THEN <<Prod(sh), 1>> ELSE sh)
             : sh \in Shapes, k \in {"ravel", "column", "view", "copy", "deepcopy", "pickle", "asarray", "asanyarray"} }
    \* boolean mask on the first axis: keep the rows whose bit is set
    \cup { IndexCase(<<3>>, "mask", m, LET keep == { i \in 0..2 : m[i + 1] = 1 } IN
                                        [k \in 1..Cardinality(keep) |-> CHOOSE i \in keep : Cardinality({ j \in keep : j < i }) = k - 1],
                     << Cardinality({ i \in 0..2 : m[i + 1] = 1 }) >>) : m \in { <<1, 0, 1>>, <<0, 0, 0>>, <<1, 1, 1>>, <<0, 1, 0>> } }
    \* integer-array ("fancy") indexing of the first axis, incl. repeats and negative entries
    \cup { LET n == sh[1]  P == Prod(Tail(sh))
               norm == [k \in 1..Len(idx) |-> IF idx[k] < 0 THEN idx[k] + n ELSE idx[k]]
               pos == [q \in 1..(Len(idx) * P) |-> norm[((q - 1) \div P) + 1] * P + ((q - 1) % P)]
           IN  IndexCase(sh, "fancy", idx, pos, <<Len(idx)>> \o Tail(sh))
             : sh \in Shapes, idx \in { <<0, 0>>, <<-1, 0>>, <<0>> } }
    \* slices with a step: reversed and every other row of the first axis
    \cup { LET n == sh[1]  P == Prod(Tail(sh))
               rows == IF st = -1 THEN [k \in 1..n |-> n - k] ELSE [k \in 1..((n + 1) \div 2) |-> 2 * (k - 1)]
               pos == [q \in 1..(Len(rows) * P) |-> rows[((q - 1) \div P) + 1] * P + ((q - 1) % P)]
           IN  IndexCase(sh, "step", <<st>>, pos, <<Len(rows)>> \o Tail(sh))
             : sh \in Shapes, st \in {-1, 2} }
    \* field access returns the stored column
    \cup { IndexCase(sh, "field", <<>>, RangeSeq(0, Prod(sh)), sh) : sh \in Shapes }

\* ------------------------------------------------------------ Awkward layouts
\* the structure an element-wise operation must return: same lists, same missing positions
Map1(l) == [k \in 1..Len(l) |-> IF l[k] = Null THEN NullOut ELSE <<"f", l[k]>>]
Map2(ll) == [k \in 1..Len(ll) |-> IF ll[k] = NullList THEN NullOut ELSE Map1(ll[k])]
Map3(lll) == [k \in 1..Len(lll) |-> Map2(lll[k])]
Layouts1 == { <<1, 2, 3>>, <<>>, <<1, 0, 2>> }                               \* flat, empty, option-typed records
Layouts2 == { << <<1, 2>>, <<>>, <<3>> >>,                                   \* variable-length
              << <<1>>, NullList, <<2, 3>> >>,                               \* option at list level
              << <<1, 0>>, <<0>>, <<2>> >>,                                  \* option at record level
              << <<>>, <<>> >> }
Layouts3 == { << << <<1>>, <<>> >>, << <<2, 3>>, <<4>> >> >>, << <<>>, << <<5, 1>> >> >> }   \* depth 3
LayoutCase(l, depth, regular, mapped) == [part |-> "layout", layout |-> l, depth |-> depth, regular |-> regular, mapped |-> mapped]

\* ------------------------------------------------------------ broadcasting of two operands
\* NumPy rule: shapes are right-aligned; two extents are compatible when they are equal or one of them is 1.
\* A state gives, for every element of the result (row-major), the flat positions of the elements of a and b
\* it is computed from - or says that the pairing must be refused.
MaxI(a, b) == IF a > b THEN a ELSE b
Pad(sh, n) == [k \in 1..n |-> IF k <= n - Len(sh) THEN 1 ELSE sh[k - (n - Len(sh))]]
Compatible(sa, sb) == LET n == MaxI(Len(sa), Len(sb))  pa == Pad(sa, n)  pb == Pad(sb, n)
                      IN  \A k \in 1..n : pa[k] = pb[k] \/ pa[k] = 1 \/ pb[k] = 1
BShape(sa, sb) == LET n == MaxI(Len(sa), Len(sb))  pa == Pad(sa, n)  pb == Pad(sb, n)
                  IN  [k \in 1..n |-> MaxI(pa[k], pb[k])]
Unflat(q, sh) == [k \in 1..Len(sh) |-> (q \div Prod(SubSeq(sh, k + 1, Len(sh)))) % sh[k]]
SrcPos(idx, p) == FlatPos([k \in 1..Len(p) |-> IF p[k] = 1 THEN 0 ELSE idx[k]], p)
BCase(lib, sa, sb, ok, rshape, posa, posb) ==
    [part |-> "broadcast", lib |-> lib, sa |-> sa, sb |-> sb, ok |-> ok, rshape |-> rshape, posa |-> posa, posb |-> posb]
NpBroadcast(sa, sb) ==
    IF Compatible(sa, sb)
    THEN LET r == BShape(sa, sb)  n == Len(r)
         IN  BCase("np", sa, sb, "T", r, [q \in 1..Prod(r) |-> SrcPos(Unflat(q - 1, r), Pad(sa, n))],
                                         [q \in 1..Prod(r) |-> SrcPos(Unflat(q - 1, r), Pad(sb, n))])
    ELSE BCase("np", sa, sb, "F", <<>>, <<>>, <<>>)
BShapes == { <<3>>, <<1>>, <<2>>, <<2, 3>>, <<2, 1>>, <<1, 3>>, <<3, 1>>, <<2, 1, 3>>, <<1, 2, 1>> }
\* Awkward rule for variable-length lists: a flat operand with one entry per list pairs entry i with every
\* element of list i; two operands with the same list lengths pair element by element; different lengths are refused
SumTo(cs, i) == LET f[k \in 0..Len(cs)] == IF k = 0 THEN 0 ELSE f[k - 1] + cs[k] IN f[i]
ListOf(q, cs) == CHOOSE i \in 1..Len(cs) : SumTo(cs, i - 1) <= q /\ q < SumTo(cs, i)
JagCounts == { <<2, 0, 3>>, <<1, 1>>, <<0, 0>>, <<3>>, <<1, 2, 0, 1>> }
AkBroadcasts ==
    { BCase("ak-jag-flat", cs, <<Len(cs)>>, "T", cs, RangeSeq(0, SumTo(cs, Len(cs))),
            [q \in 1..SumTo(cs, Len(cs)) |-> ListOf(q - 1, cs) - 1]) : cs \in JagCounts }
    \cup { BCase("ak-jag-jag", cs, cs, "T", cs, RangeSeq(0, SumTo(cs, Len(cs))), RangeSeq(0, SumTo(cs, Len(cs)))) : cs \in JagCounts }
    \cup UNION { { BCase("ak-jag-jag", cs, ds, "F", <<>>, <<>>, <<>>) : ds \in { d \in JagCounts \cup { <<1, 2>>, <<2, 1, 2>> } : d # cs /\ Len(d) = Len(cs) } }
                   : cs \in JagCounts }
    \* (an outer length of 1 broadcasts like a NumPy extent of 1, so only longer outer lists are refused)
    \cup { BCase("ak-jag-flat", cs, <<Len(cs) + 1>>, "F", <<>>, <<>>, <<>>) : cs \in { d \in JagCounts : Len(d) > 1 } }

Init == \/ Part = "reduce" /\ (c \in ReduceNp1 \/ c \in ReduceNp2 \/ c \in ReduceAk \/ c \in ReduceAk3)
        \/ Part = "index" /\ c \in IndexCases
        \/ Part = "layout" /\ (\E l \in Layouts1 : c = LayoutCase(l, 1, "F", Map1(l)))
        \/ Part = "layout" /\ (\E l \in Layouts2 : c = LayoutCase(l, 2, "F", Map2(l)))
        \/ Part = "layout" /\ (\E l \in Layouts3 : c = LayoutCase(l, 3, "F", Map3(l)))
        \/ Part = "layout" /\ c = LayoutCase(<< <<1, 2>>, <<3, 4>> >>, 2, "T", Map2(<< <<1, 2>>, <<3, 4>> >>))
        \/ Part = "broadcast" /\ (\E sa \in BShapes, sb \in BShapes : c = NpBroadcast(sa, sb))
        \/ Part = "broadcast" /\ c \in AkBroadcasts
Next == UNCHANGED c
Spec == Init /\ [][Next]_c
Emit == PrintT("@@ARR " \o ToJson([case |-> c, elems |-> IF Part = "reduce" THEN ElemsX ELSE Elems]))

\* ---- sanity of the specification's own definitions
RECURSIVE SumVecs(_, _)
SumVecs(vs, n) == IF vs = <<>> THEN ZeroVec(n) ELSE VSum(Head(vs), SumVecs(Tail(vs), n))
\* the total is the sum of the row sums and of the column sums (regular and ragged)
RowsAndColumnsSumToTotal ==
    /\ \A m \in NpMatrices : \A n \in 2..4 :
          /\ SumVecs(VecsOf(m, n), n) = SumSeq(Flatten2(m), n)
          /\ SumVecs(VecsOf(Cols(m), n), n) = SumSeq(Flatten2(m), n)
    /\ \A r \in Ragged : \A n \in 2..4 :
          /\ SumVecs([i \in 1..Len(r) |-> IF r[i] = NullList THEN ZeroVec(n) ELSE SumSeq(r[i], n)], n) = SumSeq(Flatten2(r), n)
          /\ SumVecs([j \in 1..MaxLen(r) |-> SumSeq(Column(r, j), n)], n) = SumSeq(Flatten2(r), n)
\* broadcasting is symmetric in its operands, never invents an element, and is the identity on an operand that
\* already has the result's shape
BroadcastSound ==
    (Part = "broadcast" /\ c.ok = "T") =>
        /\ Len(c.posa) = Len(c.posb)
        /\ \A k \in 1..Len(c.posa) : c.posa[k] >= 0 /\ c.posb[k] >= 0
        /\ c.lib = "np" => /\ Len(c.posa) = Prod(c.rshape)
                            /\ \A k \in 1..Len(c.posa) : c.posa[k] < Prod(c.sa) /\ c.posb[k] < Prod(c.sb)
                            /\ LET d == NpBroadcast(c.sb, c.sa) IN d.ok = "T" /\ d.rshape = c.rshape /\ d.posa = c.posb /\ d.posb = c.posa
                            /\ (c.sa = c.rshape => c.posa = RangeSeq(0, Prod(c.rshape)))
                            /\ (c.sb = c.rshape => c.posb = RangeSeq(0, Prod(c.rshape)))
IndexInRange == Part = "index" => \A k \in 1..Len(c.positions) : c.positions[k] >= 0 /\ c.positions[k] < Prod(c.shape)
=============================================================================
