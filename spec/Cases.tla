------------------------------- MODULE Cases -------------------------------
(***************************************************************************)
(* One-call behaviours of the specification: for every operation of the    *)
(* public method table and every operand tuple of the lattice, the state   *)
(* `c` records the call (operation, abstract operands, parameters) and the *)
(* result the specification requires, as a function of the operands'       *)
(* denotation only.  GEN_Cases.cfg makes TLC print each state as one JSON  *)
(* line ("@@CASE"); the conformance harness concretises the operands in    *)
(* every admissible coordinate system / backend / flavor, drives the real  *)
(* API and compares what comes back with `exp`.                            *)
(*                                                                         *)
(* Result encodings:  <<"num", term>>, <<"vec", <<terms>>>>,               *)
(* <<"bool", "T" | "F" | "either">>, <<"undef">> (no value claimed;        *)
(* coordinate-system independence is still checked).                       *)
(***************************************************************************)
EXTENDS Algebra, Lattice, Json

VARIABLE c

NumR(t)  == IF t = Undef THEN <<"undef">> ELSE <<"num", t>>
VecR(v)  == IF v = Undef THEN <<"undef">> ELSE <<"vec", v>>
BoolR(b) == <<"bool", b>>
None == <<>>

Case(op, a, b, p, exp) == [op |-> op, a |-> a, b |-> b, p |-> p, exp |-> exp]

Dims(lo) == {n \in 2..4 : n >= lo}

\* -------- unary scalar accessors (planar ones on 2-, 3- and 4-D operands, ...)
Unary(op, lo, F(_)) == { Case(op, v, None, None, NumR(F(v))) : v \in UNION {VecOfDim(n) : n \in Dims(lo)} }

CUnary ==
    Unary("x", 2, VX) \cup Unary("y", 2, VY) \cup Unary("rho", 2, Rho) \cup Unary("rho2", 2, Rho2)
    \cup Unary("phi", 2, Phi)
    \cup Unary("z", 3, VZ) \cup Unary("theta", 3, Theta) \cup Unary("eta", 3, Eta)
    \cup Unary("costheta", 3, CosTheta) \cup Unary("cottheta", 3, CotTheta)
    \cup Unary("mag", 3, Mag) \cup Unary("mag2", 3, Mag2)
    \cup Unary("t", 4, VT) \cup Unary("t2", 4, T2) \cup Unary("tau", 4, Tau) \cup Unary("tau2", 4, Tau2)
    \cup Unary("beta", 4, Beta) \cup Unary("gamma", 4, Gamma) \cup Unary("rapidity", 4, Rapidity)
    \cup Unary("Et", 4, Et) \cup Unary("Et2", 4, Et2) \cup Unary("Mt", 4, Mt) \cup Unary("Mt2", 4, Mt2)
    \cup Unary("abs", 2, Norm) \cup Unary("square", 2, Norm2)

\* -------- unary vector-valued
CUnaryVec ==
    { Case("unit", v, None, None, VecR(Unit(v))) : v \in Vec2 \cup Vec3 \cup Vec4 }
    \cup { Case("neg", v, None, None, VecR(VNeg(v))) : v \in Vec2 \cup Vec3 \cup Vec4 }
    \cup { Case("to_beta3", v, None, None, VecR(ToBeta3(v))) : v \in Vec4 }

\* -------- scalar-parameter operations
CScale ==
    { Case("scale", v, None, <<f>>, VecR(VScale(v, f))) : v \in Vec2 \cup Vec3 \cup Vec4, f \in Factors }
CRotate ==
    { Case("rotateZ", v, None, <<g>>, VecR(RotZ(v, g))) : v \in Vec2 \cup Vec3 \cup Vec4, g \in Circle }
    \cup { Case("rotateX", v, None, <<g>>, VecR(RotX(v, g))) : v \in Vec3 \cup Vec4, g \in Circle }
    \cup { Case("rotateY", v, None, <<g>>, VecR(RotY(v, g))) : v \in Vec3 \cup Vec4, g \in Circle }
EulerVecs == IF Tier = "quick" THEN { V3(3, 4, 12), V3(1, 2, 3), V4(-9, 12, -20, 65) }
             ELSE { V3(3, 4, 12), V3(1, 2, 3), V4(-9, 12, -20, 65), V3(-2, 1, -1), V3(0, 0, 1), V4(1, 2, 3, 4) }
CEuler ==
    { Case("rotate_euler", v, None, <<e[1], e[2], e[3], o>>, VecR(RotEuler(v, e[1], e[2], e[3], o)))
        : v \in EulerVecs, e \in EulerTriples, o \in EulerOrders }
    \cup { Case("rotate_nautical", v, None, <<e[1], e[2], e[3]>>, VecR(RotNautical(v, e[1], e[2], e[3])))
        : v \in EulerVecs, e \in EulerTriples }
CQuat ==
    { Case("rotate_quaternion", v, None, <<q>>, VecR(RotQuat(v, q))) : v \in Vec3 \cup Vec4, q \in Quats }
CRotAxis ==
    { Case("rotate_axis", v, VScale(u, l), <<g>>, VecR(RotAxis(v, VScale(u, l), g)))
        : v \in Vec3 \cup Vec4, u \in Unit3, l \in AxisLengths, g \in Circle }
CTransform ==
    { Case("transform2D", v, None, <<m>>, VecR(TransformN(v, m))) : v \in Vec2, m \in Mats2 }
    \cup { Case("transform3D", v, None, <<m>>, VecR(TransformN(v, m))) : v \in Vec3, m \in Mats3 }
    \cup { Case("transform4D", v, None, <<m>>, VecR(TransformN(v, m))) : v \in Vec4, m \in Mats4 }
CBoostAxis ==
    { Case("boost" \o ax \o "_beta", v, None, <<b>>, VecR(BoostAxisBeta(v, IF ax = "X" THEN "x" ELSE IF ax = "Y" THEN "y" ELSE "z", b)))
        : v \in Vec4, ax \in {"X", "Y", "Z"}, b \in Betas }
    \cup { Case("boost" \o ax \o "_gamma", v, None, <<g>>, VecR(BoostAxisGamma(v, IF ax = "X" THEN "x" ELSE IF ax = "Y" THEN "y" ELSE "z", g)))
        : v \in Vec4, ax \in {"X", "Y", "Z"}, g \in Gammas }

\* -------- binary operations
Pairs(n) == VecOfDim(n) \X VecOfDim(n)
CBinVec ==
    { Case("add", p[1], p[2], None, VecR(VAdd(p[1], p[2]))) : p \in Pairs(2) \cup Pairs(3) \cup Pairs(4) }
    \cup { Case("subtract", p[1], p[2], None, VecR(VSub(p[1], p[2]))) : p \in Pairs(2) \cup Pairs(3) \cup Pairs(4) }
    \cup { Case("cross", p[1], p[2], None, VecR(Cross(p[1], p[2]))) : p \in Pairs(3) }
CBinNum ==
    { Case("dot", p[1], p[2], None, NumR(Dot(p[1], p[2]))) : p \in Pairs(2) \cup Pairs(3) \cup Pairs(4) }
    \cup { Case("deltaphi", p[1], p[2], None, NumR(DeltaPhi(p[1], p[2]))) : p \in Pairs(2) \cup (Vec3 \X Vec4) \cup (Vec4 \X Vec2) }
    \cup { Case("deltaangle", p[1], p[2], None, NumR(DeltaAngle(p[1], p[2]))) : p \in Pairs(3) \cup (Vec4 \X Vec3) }
    \cup { Case("deltaeta", p[1], p[2], None, NumR(DeltaEta(p[1], p[2]))) : p \in Pairs(3) \cup (Vec3 \X Vec4) }
    \cup { Case("deltaR", p[1], p[2], None, NumR(DeltaR(p[1], p[2]))) : p \in Pairs(3) \cup Pairs(4) }
    \cup { Case("deltaR2", p[1], p[2], None, NumR(DeltaR2(p[1], p[2]))) : p \in Pairs(3) }
    \cup { Case("deltaRapidityPhi", p[1], p[2], None, NumR(DeltaRapPhi(p[1], p[2]))) : p \in Pairs(4) }
    \cup { Case("deltaRapidityPhi2", p[1], p[2], None, NumR(DeltaRapPhi2(p[1], p[2]))) : p \in Pairs(4) }
CBoost ==
    { Case("boost_p4", v, p, None, VecR(BoostP4(v, p))) : v \in Vec4, p \in Boosters4 }
    \cup { Case("boost_beta3", v, b, None, VecR(BoostBeta3(v, b))) : v \in Vec4, b \in Beta3s }
    \cup { Case("boostCM_of_p4", v, p, None, VecR(BoostCMP4(v, p))) : v \in Vec4, p \in Boosters4 }
    \cup { Case("boostCM_of_beta3", v, b, None, VecR(BoostCMBeta3(v, b))) : v \in Vec4, b \in Beta3s }
    \cup { Case("boost", v, p, None, VecR(BoostP4(v, p))) : v \in Vec4, p \in Boosters4 }
    \cup { Case("boost", v, b, None, VecR(BoostBeta3(v, b))) : v \in Vec4, b \in Beta3s }
    \cup { Case("boostCM_of", v, p, None, VecR(BoostCMP4(v, p))) : v \in Vec4, p \in Boosters4 }
    \cup { Case("boostCM_of", v, b, None, VecR(BoostCMBeta3(v, b))) : v \in Vec4, b \in Beta3s }

\* -------- predicates (exact booleans)
CPred ==
    { Case("is_parallel", p[1], p[2], <<k>>, BoolR(IsParallel(p[1], p[2], k))) : p \in (Small2 \X Small2) \cup (Small3 \X Small3), k \in Tols }
    \cup { Case("is_antiparallel", p[1], p[2], <<k>>, BoolR(IsAntiparallel(p[1], p[2], k))) : p \in (Small2 \X Small2) \cup (Small3 \X Small3), k \in Tols }
    \cup { Case("is_perpendicular", p[1], p[2], <<k>>, BoolR(IsPerpendicular(p[1], p[2], k))) : p \in (Small2 \X Small2) \cup (Small3 \X Small3), k \in Tols }
    \cup { Case("is_timelike", v, None, <<k>>, BoolR(IsTimelike(v, k))) : v \in Vec4 \cup Small4, k \in CausalTols }
    \cup { Case("is_spacelike", v, None, <<k>>, BoolR(IsSpacelike(v, k))) : v \in Vec4 \cup Small4, k \in CausalTols }
    \cup { Case("is_lightlike", v, None, <<k>>, BoolR(IsLightlike(v, k))) : v \in Vec4 \cup Small4, k \in CausalTols }

CONSTANT Group      \* which group this run enumerates ("all" for every group)

On(g) == Group = "all" \/ Group = g
Init == \/ On("unary") /\ c \in CUnary
        \/ On("unaryvec") /\ c \in CUnaryVec
        \/ On("scale") /\ c \in CScale
        \/ On("rotate") /\ c \in CRotate
        \/ On("euler") /\ c \in CEuler
        \/ On("quat") /\ c \in CQuat
        \/ On("rotaxis") /\ c \in CRotAxis
        \/ On("transform") /\ c \in CTransform
        \/ On("boostaxis") /\ c \in CBoostAxis
        \/ On("binvec") /\ c \in CBinVec
        \/ On("binnum") /\ c \in CBinNum
        \/ On("boost") /\ c \in CBoost
        \/ On("pred") /\ c \in CPred
Next == UNCHANGED c
Spec == Init /\ [][Next]_c

\* always TRUE: prints the case.
Emit == PrintT("@@CASE " \o ToJson(c))

\* ------------------------------------------------------------- sanity
\* every case has one of the four result shapes (TLC checks this on every state)
WellFormed == c.exp[1] \in {"num", "vec", "bool", "undef"}
=============================================================================
