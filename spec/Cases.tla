------------------------------- MODULE Cases -------------------------------
(***************************************************************************)
(* One-call behaviours of the specification: for every operation of the    *)
(* public method table and every operand tuple of the lattice, the state   *)
(* `c` records the call (operation, abstract operands, parameters) and the *)
(* result the specification requires (Eval), as a function of the          *)
(* operands' denotation only.  TLC prints each state as one JSON line      *)
(* ("@@CASE"); the conformance harness concretises the operands in every   *)
(* admissible coordinate system / backend / flavor, drives the real API    *)
(* and compares what comes back with `exp`.                                *)
(***************************************************************************)
EXTENDS Eval, Lattice, Json, FiniteSets

VARIABLE c

Case(op, a, b, p) == [op |-> op, a |-> a, b |-> b, p |-> p, exp |-> Eval(op, a, b, p),
                      reg |-> IF Regular(a) /\ (b = None \/ Regular(b)) THEN "T" ELSE "F"]

Dims(lo) == {n \in 2..4 : n >= lo}
VecsFrom(lo) == UNION {VecOfDim(n) : n \in Dims(lo)}
AllVecs == Vec2 \cup Vec3 \cup Vec4
Pairs(n) == VecOfDim(n) \X VecOfDim(n)

\* -------- unary scalar accessors (planar ones on 2-, 3- and 4-D operands, ...)
Planar2 == {"x", "y", "rho", "rho2", "phi", "abs", "square"}
Spatial3 == {"z", "theta", "eta", "costheta", "cottheta", "mag", "mag2"}
Lorentz4 == {"t", "t2", "tau", "tau2", "beta", "gamma", "rapidity", "Et", "Et2", "Mt", "Mt2"}
CUnary == { Case(op, v, None, None) : op \in Planar2, v \in VecsFrom(2) }
          \cup { Case(op, v, None, None) : op \in Spatial3, v \in VecsFrom(3) }
          \cup { Case(op, v, None, None) : op \in Lorentz4, v \in Vec4 }
          \* numpy.sqrt / cbrt / power of a vector: functions of its norm
          \cup { Case(op, v, None, None) : op \in {"np_sqrt", "np_cbrt"}, v \in AllVecs }
          \cup { Case("np_power", v, None, <<e>>) : v \in AllVecs, e \in {I(2), I(3), R(1, 2), I(-1)} }

\* -------- unary vector-valued
CUnaryVec == { Case(op, v, None, None) : op \in {"unit", "neg"}, v \in AllVecs }
             \cup { Case("to_beta3", v, None, None) : v \in Vec4 }

\* -------- scalar-parameter operations
CScale == { Case("scale", v, None, <<f>>) : v \in AllVecs, f \in Factors }
          \cup { Case("divide", v, None, <<f>>) : v \in AllVecs, f \in Factors \ {Zero} }
\* lower-dimensional scale / negation / transform on higher-dimensional vectors (stored-record contract)
CPartial == { Case("scale2D", v, None, <<f>>) : v \in Vec3 \cup Vec4, f \in Factors }
            \cup { Case("scale3D", v, None, <<f>>) : v \in Vec4, f \in Factors }
            \cup { Case("neg2D", v, None, None) : v \in Vec3 \cup Vec4 }
            \cup { Case("neg3D", v, None, None) : v \in Vec4 }
            \cup { Case("transform2D_partial", v, None, <<m>>) : v \in Vec3 \cup Vec4, m \in Mats2 }
            \cup { Case("transform3D_partial", v, None, <<m>>) : v \in Vec4, m \in Mats3 }
CRotate == { Case("rotateZ", v, None, <<g>>) : v \in AllVecs, g \in Circle }
           \cup { Case(op, v, None, <<g>>) : op \in {"rotateX", "rotateY"}, v \in Vec3 \cup Vec4, g \in Circle }
EulerVecs == IF Tier = "quick" THEN { V3(3, 4, 12), V3(1, 2, 3), V4(-9, 12, -20, 65) }
             ELSE { V3(3, 4, 12), V3(1, 2, 3), V4(-9, 12, -20, 65), V3(-2, 1, -1), V3(0, 0, 1), V4(1, 2, 3, 4) }
CEuler == { Case("rotate_euler", v, None, <<e[1], e[2], e[3], o>>) : v \in EulerVecs, e \in EulerTriples, o \in EulerOrders }
          \cup { Case("rotate_nautical", v, None, <<e[1], e[2], e[3]>>) : v \in EulerVecs, e \in EulerTriples }
CQuat == { Case("rotate_quaternion", v, None, <<q>>) : v \in Vec3 \cup Vec4, q \in Quats }
CRotAxis == { Case("rotate_axis", v, VScale(u, l), <<g>>) : v \in Vec3 \cup Vec4, u \in Unit3, l \in AxisLengths, g \in Circle }
CTransform == { Case("transform2D", v, None, <<m>>) : v \in Vec2, m \in Mats2 }
              \cup { Case("transform3D", v, None, <<m>>) : v \in Vec3, m \in Mats3 }
              \cup { Case("transform4D", v, None, <<m>>) : v \in Vec4, m \in Mats4 }
CBoostAxis == { Case(op, v, None, <<b>>) : op \in {"boostX_beta", "boostY_beta", "boostZ_beta"}, v \in Vec4, b \in Betas }
              \cup { Case(op, v, None, <<g>>) : op \in {"boostX_gamma", "boostY_gamma", "boostZ_gamma"}, v \in Vec4, g \in Gammas }

\* -------- binary operations
AllPairs == Pairs(2) \cup Pairs(3) \cup Pairs(4)
CBinVec == { Case(op, p[1], p[2], None) : op \in {"add", "subtract"}, p \in AllPairs }
           \cup { Case("cross", p[1], p[2], None) : p \in Pairs(3) }
CBinNum == { Case("dot", p[1], p[2], None) : p \in AllPairs }
           \cup { Case("deltaphi", p[1], p[2], None) : p \in Pairs(2) \cup (Vec3 \X Vec4) \cup (Vec4 \X Vec2) }
           \cup { Case("deltaangle", p[1], p[2], None) : p \in Pairs(3) \cup (Vec4 \X Vec3) }
           \cup { Case("deltaeta", p[1], p[2], None) : p \in Pairs(3) \cup (Vec3 \X Vec4) }
           \cup { Case("deltaR", p[1], p[2], None) : p \in Pairs(3) \cup Pairs(4) }
           \cup { Case("deltaR2", p[1], p[2], None) : p \in Pairs(3) }
           \cup { Case(op, p[1], p[2], None) : op \in {"deltaRapidityPhi", "deltaRapidityPhi2"}, p \in Pairs(4) }
CCmp == { Case(op, p[1], p[2], None) : op \in {"equal", "not_equal", "isclose"}, p \in AllPairs }
CBoost == { Case(op, v, p, None) : op \in {"boost_p4", "boostCM_of_p4", "boost", "boostCM_of"}, v \in Vec4, p \in Boosters4 }
          \cup { Case(op, v, b, None) : op \in {"boost_beta3", "boostCM_of_beta3", "boost", "boostCM_of"}, v \in Vec4, b \in Beta3s }

\* -------- predicates (exact three-valued booleans)
SmallPairs == (Small2 \X Small2) \cup (Small3 \X Small3)
CPred == { Case(op, p[1], p[2], <<k>>) : op \in {"is_parallel", "is_antiparallel", "is_perpendicular"}, p \in SmallPairs, k \in Tols }
         \cup { Case(op, v, None, <<k>>) : op \in {"is_timelike", "is_spacelike", "is_lightlike"}, v \in Vec4 \cup Small4, k \in CausalTols }

\* proper-time storage given directly: any rational tau next to a spatial part, in particular negative tau
\* beyond the spatial magnitude (no real t has that proper time; t is then 0, never NaN)
RawTaus == { I(n) : n \in {-84, -20, -14, -13, -5, -4, -3, -2, -1, 0, 1, 3, 5, 13} } \cup { R(-5, 2), R(1, 2) }
RawVecs == { <<v[1], v[2], v[3], k>> : v \in Vec3 \cup {V3(1, 2, 2), V3(0, 0, 3), V3(2, -1, 0), V3(1, 0, 2)}, k \in RawTaus }
CRawTau == { Case(op, a, None, None) : op \in {"rawtau_tau", "rawtau_tau2", "rawtau_t2", "rawtau_t"}, a \in RawVecs }
           \cup { Case(op, a, None, <<k>>) : op \in {"rawtau_is_timelike", "rawtau_is_spacelike", "rawtau_is_lightlike"},
                                              a \in RawVecs, k \in CausalTols }

\* exactly parallel / antiparallel pairs with irrational norms: the computed cosine reaches +-1 only up to rounding, on
\* either side - the clamps in front of arccos and the tolerance comparisons are what make the answer right
ColBase == { V3(1, 2, 3), V3(3, 2, 0), V3(3, 3, 3), V3(2, -3, 6), V3(-1, 2, 2), V3(1, 1, 1), V3(5, 0, -12), V3(-2, 1, -1) }
ColPairs == { <<v, VScale(v, k)>> : v \in ColBase, k \in {I(-1), I(-2), I(3)} }
CCollinear == { Case("deltaangle", p[1], p[2], None) : p \in ColPairs }
              \* (small bases only: the exact comparison multiplies squared norms by the squared tolerance in 32 bits)
              \cup { Case(op, v, VScale(v, k), <<tol>>) : op \in {"is_parallel", "is_antiparallel", "is_perpendicular"},
                                                        v \in { V3(1, 2, 3), V3(3, 2, 0), V3(1, 1, 1), V3(-2, 1, -1) }, k \in {I(-1), I(-2), I(3)},
                                                        tol \in {R(1, 100), R(1, 1000)} }

CONSTANT Group      \* which group this run enumerates ("all" for every group)

On(g) == Group = "all" \/ Group = g
Init == \/ On("unary") /\ c \in CUnary
        \/ On("unaryvec") /\ c \in CUnaryVec
        \/ On("scale") /\ c \in CScale
        \/ On("partial") /\ c \in CPartial
        \/ On("rotate") /\ c \in CRotate
        \/ On("euler") /\ c \in CEuler
        \/ On("quat") /\ c \in CQuat
        \/ On("rotaxis") /\ c \in CRotAxis
        \/ On("transform") /\ c \in CTransform
        \/ On("boostaxis") /\ c \in CBoostAxis
        \/ On("binvec") /\ c \in CBinVec
        \/ On("binnum") /\ c \in CBinNum
        \/ On("boost") /\ c \in CBoost
        \/ On("cmp") /\ c \in CCmp
        \/ On("pred") /\ c \in CPred
        \/ On("rawtau") /\ c \in CRawTau
        \/ On("collinear") /\ c \in CCollinear
Next == UNCHANGED c
Spec == Init /\ [][Next]_c

\* always TRUE: prints the case.
Emit == PrintT("@@CASE " \o ToJson(c))

\* every case has one of the four result shapes (TLC checks this on every state)
WellFormed == c.exp[1] \in {"num", "vec", "bool", "undef", "partial"}

\* C13 on the specification itself: wherever the expected value folds to an exact rational, the documented sign and
\* range conventions hold for the definitions of Algebra.tla; and the three causal classes never overlap and never
\* leave a vector unclassified (exactly one of the three holds; on a boundary that one is lightlike).
IsRatR(e) == e[1] = "num" /\ IsQ(e[2])
SignOf(e) == QSign(e[2])
RangeConventions ==
    /\ (c.op \in {"rho", "mag", "rho2", "mag2", "t2", "rawtau_t2", "rawtau_t", "abs", "Et2"} /\ c.op # "abs" /\ IsRatR(c.exp)) => SignOf(c.exp) >= 0
    /\ (c.op \in {"costheta", "cottheta"} /\ IsRatR(c.exp) /\ c.a[3] # Zero) => SignOf(c.exp) = QSign(c.a[3])
    /\ (c.op = "tau" /\ IsRatR(c.exp) /\ Tau2(c.a) # Zero) => (SignOf(c.exp) < 0) = (QSign(Tau2(c.a)) < 0)
    /\ (c.op = "beta" /\ IsRatR(c.exp) /\ QSign(c.a[4]) > 0 /\ QSign(Tau2(c.a)) > 0) => (SignOf(c.exp) >= 0 /\ QLt(c.exp[2], One))
    /\ (c.op = "gamma" /\ IsRatR(c.exp) /\ QSign(c.a[4]) > 0 /\ QSign(Tau2(c.a)) > 0) => ~QLt(c.exp[2], One)
    /\ (c.op \in {"is_timelike", "is_spacelike", "is_lightlike"}) =>
          LET k == c.p[1]
              r == << IsTimelike(c.a, k), IsLightlike(c.a, k), IsSpacelike(c.a, k) >>
              nT == Cardinality({ i \in 1..3 : r[i] \in {"T", "tieT"} })
          IN  nT = 1 /\ (\A i \in 1..3 : r[i] \in {"T", "F", "tieT", "tieF"}) /\ (r[1] = "tieF" \/ r[3] = "tieF" => r[2] = "tieT")
    /\ (c.op \in {"rawtau_is_timelike", "rawtau_is_spacelike", "rawtau_is_lightlike"}) =>
          LET k == c.p[1]
              r == << RawIsTimelike(c.a, k), RawIsLightlike(c.a, k), RawIsSpacelike(c.a, k) >>
              nT == Cardinality({ i \in 1..3 : r[i] \in {"T", "tieT"} })
          IN  nT = 1 /\ (\A i \in 1..3 : r[i] \in {"T", "F", "tieT", "tieF"}) /\ (r[1] = "tieF" \/ r[3] = "tieF" => r[2] = "tieT")
=============================================================================
