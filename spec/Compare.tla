------------------------------ MODULE Compare ------------------------------
(***************************************************************************)
(* C12: equality, inequality and closeness.  A state is a pair of stored   *)
(* records of equal dimension (tuples of dyadic rationals, exact in        *)
(* float64) interpreted in one common coordinate system, built from a base *)
(* record by changing exactly one stored coordinate (each position),       *)
(* several, all, or none, together with a tolerance pair.  The required    *)
(* booleans are exact:                                                     *)
(*    a == b      <=>  all stored coordinates equal                        *)
(*    a != b      <=>  ~(a == b)                                           *)
(*    isclose     <=>  every |a_i - b_i| <= atol + rtol |b_i|              *)
(* TLC checks reflexivity, symmetry, == => isclose and monotonicity in the *)
(* tolerances on the whole grid, and prints each state ("@@CMP") for       *)
(* execution on every backend, in every system of that dimension, through  *)
(* methods, operators and the NumPy functions.                             *)
(***************************************************************************)
EXTENDS Num, Json, FiniteSets

VARIABLE c

Bases == { <<I(1), Q(-1, 2)>>, <<I(0), I(3)>>,
           <<I(1), Q(-1, 2), I(2)>>, <<Q(1, 8), I(0), I(-2)>>,
           <<I(1), Q(-1, 2), I(2), I(3)>>, <<I(0), I(0), Q(1, 4), I(1)>>,
           \* a fourth coordinate far below the others: as a stored proper time it is beyond the spatial magnitude,
           \* where every derived t collapses to 0 - stored coordinates still decide equality
           <<I(1), Q(-1, 2), I(2), I(-6)>> }
Deltas == { Q(1, 8), I(1), I(-4) }
Tols == { I(0), Q(1, 8), Q(1, 2), I(2) }

Changed(a, mask, d) == [k \in 1..Len(a) |-> IF k \in mask THEN QAdd(a[k], d) ELSE a[k]]

Eq(a, b) == a = b
Ne(a, b) == ~Eq(a, b)
CloseAt(x, y, rtol, atol) == QLe(QAbs(QSub(x, y)), QAdd(atol, QMul(rtol, QAbs(y))))
IsClose(a, b, rtol, atol) == \A k \in 1..Len(a) : CloseAt(a[k], b[k], rtol, atol)

BS(x) == IF x THEN "T" ELSE "F"
Case(a, b, rtol, atol) == [a |-> a, b |-> b, rtol |-> rtol, atol |-> atol,
                           eq |-> BS(Eq(a, b)), ne |-> BS(Ne(a, b)), close |-> BS(IsClose(a, b, rtol, atol)),
                           ndiff |-> Cardinality({k \in 1..Len(a) : a[k] # b[k]})]
Cases == { Case(a, Changed(a, mask, d), rtol, atol)
             : a \in Bases, mask \in UNION {SUBSET (1..n) : n \in 2..4}, d \in Deltas, rtol \in Tols, atol \in Tols }
Init == c \in { k \in Cases : \A j \in DOMAIN k.a : TRUE }
Next == UNCHANGED c
Spec == Init /\ [][Next]_c
Emit == PrintT("@@CMP " \o ToJson(c))

\* ---- coherence of the specification's own definitions
Reflexive == Eq(c.a, c.a) /\ ~Ne(c.a, c.a) /\ IsClose(c.a, c.a, c.rtol, c.atol)
Symmetric == Eq(c.a, c.b) = Eq(c.b, c.a)
EqImpliesClose == Eq(c.a, c.b) => IsClose(c.a, c.b, c.rtol, c.atol)
Monotone == \A r2 \in Tols, a2 \in Tols :
              (QLe(c.rtol, r2) /\ QLe(c.atol, a2) /\ IsClose(c.a, c.b, c.rtol, c.atol)) => IsClose(c.a, c.b, r2, a2)
OneDifferenceIsUnequal == c.ndiff >= 1 => (c.eq = "F" /\ c.ne = "T")
=============================================================================
