------------------------------ MODULE Convert ------------------------------
(***************************************************************************)
(* C04: coordinate conversions and dimension changes.  A state is one      *)
(* conversion call: the source coordinate system, the method (one of the   *)
(* 40 to_<system> spellings, to_Vector2D/3D/4D, to_2D/3D/4D, like) and the *)
(* keyword choice.  The specification gives the required result system and *)
(* for every stored coordinate of the result where it comes from:          *)
(*   <<"keep", f>>    bit-identical to the source's stored coordinate f    *)
(*   <<"kw", k>>      exactly the value passed by keyword k                *)
(*   <<"zero">>       exactly 0                                            *)
(*   <<"compute">>    computed: the result denotes the same azimuthal /    *)
(*                    spatial / temporal part as the source                *)
(* or "TypeError" for two keywords of one group.                           *)
(***************************************************************************)
EXTENDS Integers, Sequences, FiniteSets, TLC, Json

AzK == {"xy", "rhophi"}   LonK == {"z", "theta", "eta"}   TmpK == {"t", "tau"}
Systems == { <<a, "none", "none">> : a \in AzK } \cup { <<a, l, "none">> : a \in AzK, l \in LonK }
           \cup { <<a, l, t>> : a \in AzK, l \in LonK, t \in TmpK }
SDim(s) == 2 + (IF s[2] = "none" THEN 0 ELSE 1) + (IF s[3] = "none" THEN 0 ELSE 1)
AzFields(a) == IF a = "xy" THEN <<"x", "y">> ELSE <<"rho", "phi">>
Fields(s) == AzFields(s[1]) \o (IF s[2] = "none" THEN <<>> ELSE <<s[2]>>) \o (IF s[3] = "none" THEN <<>> ELSE <<s[3]>>)

\* keyword spellings -> coordinate type
LonKw == {"z", "pz", "theta", "eta"}
TmpKw == {"t", "e", "E", "energy", "tau", "m", "M", "mass"}
LonType(k) == IF k \in {"z", "pz"} THEN "z" ELSE k
TmpType(k) == IF k \in {"t", "e", "E", "energy"} THEN "t" ELSE "tau"

\* ---- to_<system>(): every group of the target that the source has is kept (same type) or
\* computed (other type); a group the source lacks is imputed from the keyword, else zero
GroupStatus(srcType, tgtType, kw, fields) ==
    IF srcType = "none" THEN [k \in 1..Len(fields) |-> IF kw = "none" THEN <<"zero">> ELSE <<"kw", kw>>]
    ELSE IF srcType = tgtType THEN [k \in 1..Len(fields) |-> <<"keep", fields[k]>>]
    ELSE [k \in 1..Len(fields) |-> <<"compute">>]
ToSystem(src, tgt, lonkw, tmpkw) ==
    [ out |-> "vec", sys |-> tgt,
      coords |-> GroupStatus(src[1], tgt[1], "none", AzFields(tgt[1]))
                 \o (IF tgt[2] = "none" THEN <<>> ELSE GroupStatus(src[2], tgt[2], lonkw, <<tgt[2]>>))
                 \o (IF tgt[3] = "none" THEN <<>> ELSE GroupStatus(src[3], tgt[3], tmpkw, <<tgt[3]>>)) ]

\* ---- to_VectorND / to_ND / like: stored coordinates are retained bit for bit; missing groups are
\* imputed in the coordinate type the keyword names, or as zero of type z / t
ToDim(src, n, lonkw, tmpkw) ==
    LET lonT == IF src[2] # "none" THEN src[2] ELSE IF lonkw = "none" THEN "z" ELSE LonType(lonkw)
        tmpT == IF src[3] # "none" THEN src[3] ELSE IF tmpkw = "none" THEN "t" ELSE TmpType(tmpkw)
        tgt  == <<src[1], IF n >= 3 THEN lonT ELSE "none", IF n = 4 THEN tmpT ELSE "none">>
    IN  [ out |-> "vec", sys |-> tgt,
          coords |-> [k \in 1..2 |-> <<"keep", AzFields(src[1])[k]>>]
                     \o (IF n < 3 THEN <<>> ELSE IF src[2] # "none" THEN << <<"keep", src[2]>> >>
                         ELSE IF lonkw = "none" THEN << <<"zero">> >> ELSE << <<"kw", lonkw>> >>)
                     \o (IF n < 4 THEN <<>> ELSE IF src[3] # "none" THEN << <<"keep", src[3]>> >>
                         ELSE IF tmpkw = "none" THEN << <<"zero">> >> ELSE << <<"kw", tmpkw>> >>) ]
TypeErr == [out |-> "TypeError", sys |-> <<"none", "none", "none">>, coords |-> <<>>]

VARIABLE c
Call(kind, src, tgt, n, spelling, lonkw, tmpkw, lonkw2, tmpkw2, req) ==
    [kind |-> kind, src |-> src, tgt |-> tgt, n |-> n, spelling |-> spelling, lonkw |-> lonkw, tmpkw |-> tmpkw,
     lonkw2 |-> lonkw2, tmpkw2 |-> tmpkw2, req |-> req]
NoSys == <<"none", "none", "none">>

\* to_<system>: keywords exist only for the groups the target has; given or not
SysCalls ==
    { Call("to_system", s, t, SDim(t), sp, lk, tk, "none", "none", ToSystem(s, t, lk, tk))
        : s \in Systems, t \in Systems, sp \in {"geometric", "momentum"},
          lk \in {"none", "given"}, tk \in {"none", "given"} }
\* with "given" standing for the one keyword that to_<system> accepts for that group
FixKw(cl) == LET lk == IF cl.lonkw = "given" THEN (IF cl.tgt[2] = "none" THEN "none" ELSE IF cl.spelling = "momentum" /\ cl.tgt[2] = "z" THEN "pz" ELSE cl.tgt[2]) ELSE "none"
                 tk == IF cl.tmpkw = "given" THEN (IF cl.tgt[3] = "none" THEN "none" ELSE IF cl.spelling = "momentum" THEN (IF cl.tgt[3] = "t" THEN "energy" ELSE "mass") ELSE cl.tgt[3]) ELSE "none"
             IN  [cl EXCEPT !.lonkw = lk, !.tmpkw = tk, !.req = ToSystem(cl.src, cl.tgt, lk, tk)]
DimCalls ==
    { Call(k, s, NoSys, n, "geometric", lk, tk, "none", "none", ToDim(s, n, lk, tk))
        : k \in {"to_VectorND", "to_ND"}, s \in Systems, n \in 2..4,
          lk \in {"none"} \cup LonKw, tk \in {"none"} \cup TmpKw }
LikeCalls == { Call("like", s, NoSys, n, "geometric", "none", "none", "none", "none", ToDim(s, n, "none", "none")) : s \in Systems, n \in 2..4 }
\* two keywords of one group: TypeError
BadCalls == { Call("to_VectorND", s, NoSys, n, "geometric", lk, "none", lk2, "none", TypeErr)
                : s \in { q \in Systems : SDim(q) = 2 }, n \in {3, 4}, lk \in LonKw, lk2 \in LonKw \ {"z"} }
            \cup { Call("to_VectorND", s, NoSys, 4, "geometric", "none", tk, "none", tk2, TypeErr)
                : s \in { q \in Systems : SDim(q) < 4 }, tk \in {"t", "E", "mass"}, tk2 \in {"tau", "energy", "m"} }
\* keywords only make sense for groups that are actually added
Sensible(cl) == /\ (cl.lonkw # "none" => (cl.src[2] = "none" /\ cl.n >= 3))
                /\ (cl.tmpkw # "none" => (cl.src[3] = "none" /\ cl.n = 4))
                /\ (cl.lonkw2 # "none" => cl.lonkw2 # cl.lonkw)
Init == c \in { FixKw(cl) : cl \in SysCalls } \cup { cl \in DimCalls : Sensible(cl) } \cup LikeCalls \cup { cl \in BadCalls : Sensible(cl) }
Next == UNCHANGED c
Spec == Init /\ [][Next]_c
Emit == PrintT("@@CONV " \o ToJson(c))

\* ---- invariants of the rules
\* the result has exactly one status per stored coordinate of the required system
Shape == c.req.out = "vec" => Len(c.req.coords) = SDim(c.req.sys) /\ Len(Fields(c.req.sys)) = SDim(c.req.sys)
\* converting to the system the vector is already stored in keeps every coordinate
IdentityKeeps == (c.kind = "to_system" /\ c.src = c.tgt) => \A k \in 1..Len(c.req.coords) : c.req.coords[k][1] = "keep"
\* projections and embeddings never compute anything
DimChangesNeverCompute == c.kind # "to_system" /\ c.req.out = "vec" => \A k \in 1..Len(c.req.coords) : c.req.coords[k][1] # "compute"
=============================================================================
