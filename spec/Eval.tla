-------------------------------- MODULE Eval --------------------------------
(***************************************************************************)
(* The public method table as one evaluation function:                     *)
(*   Eval(op, a, b, p)  =  the result the specification requires for the   *)
(* call `a.op(b, *p)` on abstract operands.  Used by Cases (one-call       *)
(* behaviours) and Laws (multi-step programs).                             *)
(* Results: <<"num", term>>, <<"vec", <<terms>>>>, <<"bool", "T"|"F"|      *)
(* "either">>, <<"undef">>.                                                *)
(***************************************************************************)
EXTENDS Algebra

None == <<>>
NumR(t)  == IF t = Undef THEN <<"undef">> ELSE <<"num", t>>
VecR(v)  == IF v = Undef THEN <<"undef">> ELSE <<"vec", v>>
BoolR(b) == <<"bool", b>>

AxisOf(op) == IF op \in {"boostX_beta", "boostX_gamma"} THEN "x"
              ELSE IF op \in {"boostY_beta", "boostY_gamma"} THEN "y" ELSE "z"

ScalarOps == {"x", "y", "rho", "rho2", "phi", "z", "theta", "eta", "costheta", "cottheta", "mag", "mag2",
              "t", "t2", "tau", "tau2", "beta", "gamma", "rapidity", "Et", "Et2", "Mt", "Mt2", "abs", "square",
              "np_sqrt", "np_cbrt"}

EvalScalar(op, a) ==
    CASE op = "x" -> VX(a) [] op = "y" -> VY(a) [] op = "rho" -> Rho(a) [] op = "rho2" -> Rho2(a)
      [] op = "phi" -> Phi(a) [] op = "z" -> VZ(a) [] op = "theta" -> Theta(a) [] op = "eta" -> Eta(a)
      [] op = "costheta" -> CosTheta(a) [] op = "cottheta" -> CotTheta(a) [] op = "mag" -> Mag(a)
      [] op = "mag2" -> Mag2(a) [] op = "t" -> VT(a) [] op = "t2" -> T2(a) [] op = "tau" -> Tau(a)
      [] op = "tau2" -> Tau2(a) [] op = "beta" -> Beta(a) [] op = "gamma" -> Gamma(a)
      [] op = "rapidity" -> Rapidity(a) [] op = "Et" -> Et(a) [] op = "Et2" -> Et2(a)
      [] op = "Mt" -> Mt(a) [] op = "Mt2" -> Mt2(a) [] op = "abs" -> Norm(a) [] op = "square" -> Norm2(a)
      [] op = "np_sqrt" -> NormPow(a, Half) [] op = "np_cbrt" -> NormPow(a, Q(1, 3))

Eval(op, a, b, p) ==
    IF op \in ScalarOps THEN NumR(EvalScalar(op, a))
    ELSE CASE op = "unit" -> VecR(Unit(a))
      [] op = "neg" -> VecR(VNeg(a))
      [] op = "to_beta3" -> VecR(ToBeta3(a))
      [] op = "np_power" -> NumR(NormPow(a, p[1]))
      [] op = "scale" -> VecR(VScale(a, p[1]))
      \* the C01 exception: scaleN / negN / transformN act on the first N Cartesian components and
      \* leave the *stored* higher coordinates untouched: <<"partial", N, first N components>>
      [] op = "scale2D" -> <<"partial", 2, P2(VScaleN(a, 2, p[1]))>>
      [] op = "scale3D" -> <<"partial", 3, P3(VScaleN(a, 3, p[1]))>>
      [] op = "neg2D" -> <<"partial", 2, P2(VScaleN(a, 2, MinusOne))>>
      [] op = "neg3D" -> <<"partial", 3, P3(VScaleN(a, 3, MinusOne))>>
      [] op = "transform2D_partial" -> <<"partial", 2, P2(TransformN(a, p[1]))>>
      [] op = "transform3D_partial" -> <<"partial", 3, P3(TransformN(a, p[1]))>>
      [] op = "divide" -> IF p[1] = Zero THEN <<"undef">> ELSE VecR(VScale(a, QDiv(One, p[1])))
      [] op = "rotateZ" -> VecR(RotZ(a, p[1]))
      [] op = "rotateX" -> VecR(RotX(a, p[1]))
      [] op = "rotateY" -> VecR(RotY(a, p[1]))
      [] op = "rotate_euler" -> VecR(RotEuler(a, p[1], p[2], p[3], p[4]))
      [] op = "rotate_nautical" -> VecR(RotNautical(a, p[1], p[2], p[3]))
      [] op = "rotate_quaternion" -> VecR(RotQuat(a, p[1]))
      [] op = "rotate_axis" -> VecR(RotAxis(a, b, p[1]))
      [] op \in {"transform2D", "transform3D", "transform4D"} -> VecR(TransformN(a, p[1]))
      [] op \in {"boostX_beta", "boostY_beta", "boostZ_beta"} -> VecR(BoostAxisBeta(a, AxisOf(op), p[1]))
      [] op \in {"boostX_gamma", "boostY_gamma", "boostZ_gamma"} -> VecR(BoostAxisGamma(a, AxisOf(op), p[1]))
      [] op = "add" -> VecR(VAdd(a, b))
      [] op = "subtract" -> VecR(VSub(a, b))
      [] op = "cross" -> VecR(Cross(a, b))
      [] op = "dot" -> NumR(Dot(a, b))
      [] op = "deltaphi" -> NumR(DeltaPhi(a, b))
      [] op = "deltaangle" -> NumR(DeltaAngle(a, b))
      [] op = "deltaeta" -> NumR(DeltaEta(a, b))
      [] op = "deltaR" -> NumR(DeltaR(a, b))
      [] op = "deltaR2" -> NumR(DeltaR2(a, b))
      [] op = "deltaRapidityPhi" -> NumR(DeltaRapPhi(a, b))
      [] op = "deltaRapidityPhi2" -> NumR(DeltaRapPhi2(a, b))
      [] op = "boost_p4" -> VecR(BoostP4(a, b))
      [] op = "boost_beta3" -> VecR(BoostBeta3(a, b))
      [] op = "boostCM_of_p4" -> VecR(BoostCMP4(a, b))
      [] op = "boostCM_of_beta3" -> VecR(BoostCMBeta3(a, b))
      [] op = "boost" -> IF Len(b) = 4 THEN VecR(BoostP4(a, b)) ELSE VecR(BoostBeta3(a, b))
      [] op = "boostCM_of" -> IF Len(b) = 4 THEN VecR(BoostCMP4(a, b)) ELSE VecR(BoostCMBeta3(a, b))
      \* comparisons of lattice points (distinct lattice points are far apart: every stored coordinate
      \* system separates them by much more than the default tolerances; the exact semantics on
      \* arbitrary stored records is Compare.tla / C12)
      [] op = "equal" -> BoolR(BoolStr(a = b))
      [] op = "not_equal" -> BoolR(BoolStr(a # b))
      [] op = "isclose" -> BoolR(BoolStr(a = b))
      [] op = "is_parallel" -> BoolR(IsParallel(a, b, p[1]))
      [] op = "is_antiparallel" -> BoolR(IsAntiparallel(a, b, p[1]))
      [] op = "is_perpendicular" -> BoolR(IsPerpendicular(a, b, p[1]))
      [] op = "is_timelike" -> BoolR(IsTimelike(a, p[1]))
      [] op = "is_spacelike" -> BoolR(IsSpacelike(a, p[1]))
      [] op = "is_lightlike" -> BoolR(IsLightlike(a, p[1]))
      \* operand given by its stored proper time: a = <<x, y, z, tau>>
      [] op = "rawtau_tau" -> NumR(a[4])
      [] op = "rawtau_tau2" -> NumR(RawTau2(a))
      [] op = "rawtau_t2" -> NumR(RawT2(a))
      [] op = "rawtau_t" -> NumR(RawT(a))
      [] op = "rawtau_is_timelike" -> BoolR(RawIsTimelike(a, p[1]))
      [] op = "rawtau_is_spacelike" -> BoolR(RawIsSpacelike(a, p[1]))
      [] op = "rawtau_is_lightlike" -> BoolR(RawIsLightlike(a, p[1]))
=============================================================================
