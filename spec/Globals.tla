------------------------------ MODULE Globals ------------------------------
(***************************************************************************)
(* C20: process-wide state and threads.                                    *)
(*                                                                         *)
(* Process state `glob`: NumPy's floating-point error mode as seen outside *)
(* any vector call, the warnings filters, the print options, Awkward's     *)
(* behavior registry and vector's registration flag.  NumPy's error mode   *)
(* is context-local (numpy.errstate enters/exits per thread), which is the *)
(* load-bearing assumption: `SharedErrState = TRUE` is the deliberately    *)
(* wrong variant in which it is one process-global cell; TLC must find the *)
(* counterexample there (negative configuration, shows the invariants are  *)
(* not vacuous).                                                           *)
(*                                                                         *)
(* Each thread runs a program of public calls; a call is Enter (the        *)
(* dispatch function's `with numpy.errstate(all="ignore")`), Compute, and  *)
(* Exit - or Raise, which unwinds through the same context manager.        *)
(* Register actions are the only ones allowed to touch the registries.     *)
(***************************************************************************)
EXTENDS Integers, Sequences, FiniteSets, TLC

CONSTANTS Threads, SharedErrState, PriorErr, MaxCalls

VARIABLES glob,      \* [err, filters, printopts, registry, registered]
          local,     \* per thread: error mode in effect for that thread's context
          pc,        \* per thread: "idle" | "in" | "done"
          saved,     \* per thread: error mode saved by the context manager
          ncalls,    \* per thread: calls completed
          results,   \* per thread: sequence of results (a result records the error mode the computation ran under)
          kindof     \* per thread: kind of the call in progress: "ok" | "raises" | "register"
vars == <<glob, local, pc, saved, ncalls, results, kindof>>

ErrModes == {"warn", "raise", "ignore", "print"}
Init == /\ glob = [err |-> PriorErr, filters |-> "F0", printopts |-> "P0", registry |-> {}, registered |-> FALSE]
        /\ local = [t \in Threads |-> PriorErr]
        /\ pc = [t \in Threads |-> "idle"]
        /\ saved = [t \in Threads |-> PriorErr]
        /\ ncalls = [t \in Threads |-> 0]
        /\ results = [t \in Threads |-> <<>>]
        /\ kindof = [t \in Threads |-> "ok"]

CurErr(t) == IF SharedErrState THEN glob.err ELSE local[t]
SetErr(t, m) == IF SharedErrState
                THEN /\ glob' = [glob EXCEPT !.err = m] /\ UNCHANGED local
                ELSE /\ local' = [local EXCEPT ![t] = m] /\ UNCHANGED glob

\* with numpy.errstate(all="ignore"):  save the current mode, switch to "ignore"
Enter(t, k) == /\ pc[t] = "idle" /\ ncalls[t] < MaxCalls
               /\ k \in {"ok", "raises"}
               /\ saved' = [saved EXCEPT ![t] = CurErr(t)]
               /\ SetErr(t, "ignore")
               /\ pc' = [pc EXCEPT ![t] = "in"]
               /\ kindof' = [kindof EXCEPT ![t] = k]
               /\ UNCHANGED <<ncalls, results>>
\* the computation observes the error mode; leaving the context restores the saved mode,
\* on the normal path and on the exception path alike
Exit(t) == /\ pc[t] = "in"
           /\ SetErr(t, saved[t])
           /\ results' = [results EXCEPT ![t] = Append(@, <<kindof[t], CurErr(t)>>)]
           /\ ncalls' = [ncalls EXCEPT ![t] = @ + 1]
           /\ pc' = [pc EXCEPT ![t] = IF ncalls[t] + 1 = MaxCalls THEN "done" ELSE "idle"]
           /\ UNCHANGED <<saved, kindof>>
\* register_awkward(): the only action that may change the registry; idempotent
Register(t) == /\ pc[t] = "idle" /\ ncalls[t] < MaxCalls
               /\ glob' = [glob EXCEPT !.registry = @ \cup {"Vector2D", "Vector3D", "Vector4D", "Momentum2D", "Momentum3D", "Momentum4D"},
                                       !.registered = TRUE]
               /\ ncalls' = [ncalls EXCEPT ![t] = @ + 1]
               /\ results' = [results EXCEPT ![t] = Append(@, <<"register", "-">>)]
               /\ pc' = [pc EXCEPT ![t] = IF ncalls[t] + 1 = MaxCalls THEN "done" ELSE "idle"]
               /\ UNCHANGED <<local, saved, kindof>>
Next == \E t \in Threads : \/ \E k \in {"ok", "raises"} : Enter(t, k)
                           \/ Exit(t)
                           \/ Register(t)
Spec == Init /\ [][Next]_vars

Quiescent == \A t \in Threads : pc[t] # "in"
\* outside any call, every thread sees the error mode it started with, and the process state
\* (other than the registries) is exactly the initial one
GlobalsRestored == Quiescent => /\ glob.err = PriorErr /\ glob.filters = "F0" /\ glob.printopts = "P0"
                                /\ \A t \in Threads : local[t] = PriorErr
\* the registry is only ever changed by Register, and then to exactly the six record names
OnlyRegisterChangesRegistry ==
    [][ glob'.registry # glob.registry => \E t \in Threads : results'[t] # results[t] /\ results'[t][Len(results'[t])][1] = "register" ]_vars
RegisterIdempotent == glob.registered => Cardinality(glob.registry) = 6
\* every computation ran under "ignore" - exactly what it sees when run alone (thread determinism)
ResultsEqualSequential == \A t \in Threads : \A i \in 1..Len(results[t]) :
                              results[t][i][1] \in {"ok", "raises"} => results[t][i][2] = "ignore"
=============================================================================
