------------------------------ MODULE Lattice ------------------------------
(***************************************************************************)
(* The operand lattice: rational Cartesian points chosen so that the       *)
(* operations of interest are closed over Q (Pythagorean directions,       *)
(* rational points of the unit circle as angles, rational (beta, gamma)    *)
(* pairs as boosts) and stratified: every sign pattern / quadrant /        *)
(* hemisphere, axis-aligned, on and around the light cone, zero            *)
(* components, generic points with irrational norms.                       *)
(* Tier = "quick" selects a sub-lattice; "full" everything.                *)
(* The harness never defines operand values itself: it receives lattice    *)
(* points only through cases emitted by TLC.                               *)
(***************************************************************************)
EXTENDS Num

CONSTANT Tier

R(n, d) == Q(n, d)
V2(x, y) == <<I(x), I(y)>>
V3(x, y, z) == <<I(x), I(y), I(z)>>
V4(x, y, z, t) == <<I(x), I(y), I(z), I(t)>>

\* ---------------------------------------------------------------- vectors
\* incl. points hugging the -x axis from both sides (phi near +-pi)
Vec2Quick == { V2(3, 4), V2(-5, 12), V2(-8, -15), V2(2, -3), V2(1, 0), V2(0, -1), V2(0, 0),
               <<R(1, 2), R(-7, 2)>>, <<I(-1), R(1, 1024)>>, <<I(-1), R(-1, 1024)>> }
Vec2Full  == Vec2Quick \cup
             { V2(-3, 4), V2(4, -3), V2(0, 1), V2(-1, 0), V2(1, 1), V2(-1, -2), V2(20, 21),
               V2(-7, 24), <<R(3, 8), R(1, 2)>>, V2(65, 0), V2(-1, 1) }
Vec2 == IF Tier = "quick" THEN Vec2Quick ELSE Vec2Full

\* (x, y, z) with rho and mag rational where possible
Vec3Quick == { V3(3, 4, 12), V3(-9, 12, -20), V3(12, -16, 15), V3(-8, -6, 0),
               V3(0, 0, 1), V3(0, 0, -2), V3(1, 0, 0), V3(0, 0, 0),
               V3(1, 2, 3), V3(-2, 1, -1), <<R(1, 8), I(0), I(1)>>, <<I(-2), R(-1, 512), R(1, 512)>>,
               \* exactly antiparallel to (1, 2, 3) with an irrational norm: the cosine of the angle is -1 up to rounding
               V3(-1, -2, -3),
               \* antiparallel pairs whose computed cosine falls below -1 by one rounding (float64: (3,2,0); 60 digits: (3,3,3))
               V3(3, 2, 0), V3(-3, -2, 0), V3(3, 3, 3), V3(-3, -3, -3) }
Vec3Full  == Vec3Quick \cup
             { V3(-3, -4, 12), V3(4, -3, -12), V3(0, 1, 0), V3(0, -5, 12), V3(1, 1, 1),
               V3(2, -3, 6), V3(-1, 2, 2), V3(8, 15, 0), V3(5, 0, -12), V3(-1, -1, 0),
               <<I(3), I(4), R(1, 8)>>, <<R(1, 2), R(1, 2), R(-1, 2)>> }
Vec3 == IF Tier = "quick" THEN Vec3Quick ELSE Vec3Full

\* (p, t): timelike with rational tau, lightlike, spacelike with rational tau,
\* near the light cone, at rest, negative time, zero, generic
Vec4Quick == { V4(3, 4, 12, 85), V4(-9, 12, -20, 65), V4(12, -16, 15, 65),
               V4(3, 4, 12, 13), V4(3, 4, 12, 5), V4(0, 0, 0, 7), V4(3, 4, 12, -85),
               V4(0, 0, 0, 0), V4(1, 2, 3, 4), V4(1, -1, 2, 1), V4(0, 0, 3, 5), V4(4, 3, 1, 2),
               <<I(3), I(4), I(12), R(105, 8)>> }
Vec4Full  == Vec4Quick \cup
             { V4(-3, -4, 12, 85), V4(4, -3, -12, 15), V4(-8, -6, 0, 26), V4(0, 0, -5, 13),
               V4(1, 0, 0, 1), V4(0, 1, 0, -1), V4(2, -3, 6, 25), V4(-1, 2, 2, 5),
               V4(2, 1, -2, 3), V4(1, 1, 1, 2), V4(5, 0, -12, 12), V4(0, 0, 0, -3),
               <<I(3), I(4), I(12), R(103, 8)>>, V4(-2, 1, -1, 3), V4(8, 15, 0, 17) }
Vec4 == IF Tier = "quick" THEN Vec4Quick ELSE Vec4Full

VecOfDim(n) == IF n = 2 THEN Vec2 ELSE IF n = 3 THEN Vec3 ELSE Vec4

\* small-norm vectors for exact tolerance predicates (keeps k^2 |a|^2 |b|^2 < 2^31)
Small2 == { V2(3, 4), V2(-3, -4), V2(4, -3), V2(-4, 3), V2(1, 0), V2(2, 0), V2(-1, 0), V2(0, 2),
            V2(1, 1), V2(5, 12), V2(6, 8), V2(7, 1), V2(0, 0), V2(-7, -1), V2(1, 7) }
Small3 == { V3(1, 2, 2), V3(-1, -2, -2), V3(2, 4, 4), V3(2, -1, 0), V3(2, -2, 1), V3(0, 0, 3),
            V3(0, 0, -1), V3(1, 0, 0), V3(3, 4, 12), V3(1, 1, 1), V3(0, 0, 0), V3(2, 2, 1),
            V3(-2, 1, 2), V3(7, 4, 4) }
Small4 == { <<v[1], v[2], v[3], I(t)>> : v \in {V3(1, 2, 2), V3(0, 0, 3), V3(2, -1, 0)}, t \in {0, 2, 3, 4} }

\* ----------------------------------------------------------------- angles
\* rational points (cos, sin) of the unit circle
CircleQuick == { <<I(1), I(0)>>, <<I(0), I(1)>>, <<I(-1), I(0)>>, <<R(3, 5), R(4, 5)>>,
                 <<R(-5, 13), R(12, 13)>>, <<R(-8, 17), R(-15, 17)>>, <<R(4, 5), R(-3, 5)>> }
CircleFull  == CircleQuick \cup
               { <<I(0), I(-1)>>, <<R(-3, 5), R(4, 5)>>, <<R(5, 13), R(-12, 13)>>,
                 <<R(20, 29), R(21, 29)>>, <<R(-7, 25), R(-24, 25)>>, <<R(24, 25), R(7, 25)>>,
                 <<R(15, 17), R(-8, 17)>>, <<R(-4, 5), R(-3, 5)>> }
Circle == IF Tier = "quick" THEN CircleQuick ELSE CircleFull
\* three independent generic angles for the Euler/nautical cases
EulerTriples == IF Tier = "quick"
                THEN { << <<R(3, 5), R(4, 5)>>, <<R(-5, 13), R(12, 13)>>, <<R(8, 17), R(-15, 17)>> >>,
                       << <<I(0), I(1)>>, <<R(4, 5), R(-3, 5)>>, <<I(-1), I(0)>> >> }
                ELSE { << <<R(3, 5), R(4, 5)>>, <<R(-5, 13), R(12, 13)>>, <<R(8, 17), R(-15, 17)>> >>,
                       << <<I(0), I(1)>>, <<R(4, 5), R(-3, 5)>>, <<I(-1), I(0)>> >>,
                       << <<R(-8, 17), R(-15, 17)>>, <<R(3, 5), R(-4, 5)>>, <<R(5, 13), R(12, 13)>> >>,
                       << <<I(1), I(0)>>, <<R(-3, 5), R(-4, 5)>>, <<R(4, 5), R(3, 5)>> >> }
EulerOrders == { <<"z","x","z">>, <<"x","y","x">>, <<"y","z","y">>, <<"z","y","z">>,
                 <<"x","z","x">>, <<"y","x","y">>, <<"x","y","z">>, <<"y","z","x">>,
                 <<"z","x","y">>, <<"x","z","y">>, <<"z","y","x">>, <<"y","x","z">> }

\* rational unit 3-vectors (rotation axes, boost directions) and axis lengths
Unit3Quick == { <<R(1, 3), R(2, 3), R(2, 3)>>, <<R(-2, 7), R(3, 7), R(-6, 7)>>,
                <<I(0), I(0), I(1)>>, <<I(1), I(0), I(0)>>, <<I(0), I(-1), I(0)>> }
Unit3Full  == Unit3Quick \cup
              { <<R(2, 3), R(-1, 3), R(2, 3)>>, <<R(3, 13), R(4, 13), R(12, 13)>>,
                <<R(-1, 9), R(-4, 9), R(8, 9)>>, <<I(0), I(1), I(0)>>, <<I(0), I(0), I(-1)>>,
                <<I(-1), I(0), I(0)>>, <<R(6, 7), R(-2, 7), R(-3, 7)>> }
Unit3 == IF Tier = "quick" THEN Unit3Quick ELSE Unit3Full
AxisLengths == IF Tier = "quick" THEN { I(1), I(3) } ELSE { I(1), I(3), R(1, 2) }

\* unit quaternions (cos a/2; n sin a/2) with rational entries
Quats == { <<R(3, 5), R(4, 15), R(8, 15), R(8, 15)>>,      \* n = (1,2,2)/3
           <<R(3, 5), I(0), I(0), R(4, 5)>>,               \* about z
           <<R(5, 13), R(12, 13), I(0), I(0)>>,            \* about x
           <<R(4, 5), I(0), R(-3, 5), I(0)>>,              \* about -y
           <<I(1), I(0), I(0), I(0)>>,
           <<I(0), R(-2, 7), R(3, 7), R(-6, 7)>>,          \* half turn
           <<R(-3, 5), R(8, 35), R(-12, 35), R(24, 35)>> }

\* ----------------------------------------------------------------- boosts
\* beta = (k^2 - 1)/(k^2 + 1) for rational k > 0 has rational gamma = (k^2 + 1)/(2k)
BetasQuick == { R(3, 5), R(-4, 5), R(5, 13), I(0), R(-24, 25), R(4900, 4901) }
BetasFull  == BetasQuick \cup { R(-3, 5), R(4, 5), R(-5, 13), R(12, 13), R(-4900, 4901), R(8, 17) }
Betas == IF Tier = "quick" THEN BetasQuick ELSE BetasFull
GammaOf(b) == QDiv(One, QSqrt(QSub(One, QMul(b, b))))
\* signed gammas for the gamma spelling (sign = direction), incl. gamma = +-1
Gammas == { IF QSign(b) < 0 THEN QNeg(GammaOf(b)) ELSE GammaOf(b) : b \in Betas } \cup { I(-1), I(2) }
BetaSpeeds == IF Tier = "quick" THEN { R(3, 5), R(12, 13) } ELSE { R(3, 5), R(12, 13), R(4, 5), R(24, 25) }
Beta3s == { <<QMul(s, u[1]), QMul(s, u[2]), QMul(s, u[3])>> : s \in BetaSpeeds, u \in Unit3 }
          \cup { <<I(0), I(0), I(0)>> }
\* 4-D boosters: forward timelike with rational tau (so gamma is rational)
Boosters4 == IF Tier = "quick"
             THEN { V4(3, 4, 12, 85), V4(-9, 12, -20, 65), V4(0, 0, 0, 7), V4(0, 0, 3, 5) }
             ELSE { V4(3, 4, 12, 85), V4(-9, 12, -20, 65), V4(0, 0, 0, 7), V4(0, 0, 3, 5),
                    V4(12, -16, 15, 65), V4(-8, -6, 0, 26), V4(0, 0, -5, 13), V4(1, 2, 3, 4) }

\* ---------------------------------------------------------------- scalars
Factors == IF Tier = "quick" THEN { I(-2), I(-1), I(0), R(1, 2), I(3) }
           ELSE { I(-2), I(-1), R(-1, 2), I(0), R(1, 2), I(1), I(3) }
Tols    == { I(0), R(1, 100), R(1, 10), R(1, 2), I(1), I(2) }
CausalTols == { I(0), R(1, 100), I(1), I(20), I(200) }

Mats2 == { << <<I(1), I(2)>>, <<I(3), I(4)>> >>, << <<I(0), I(-1)>>, <<I(1), I(0)>> >>,
           << <<I(2), I(4)>>, <<I(1), I(2)>> >>, << <<R(1, 2), I(0)>>, <<I(-3), I(5)>> >> }
Mats3 == { << <<I(1), I(2), I(3)>>, <<I(4), I(5), I(6)>>, <<I(7), I(8), I(10)>> >>,
           << <<I(0), I(0), I(1)>>, <<I(1), I(0), I(0)>>, <<I(0), I(1), I(0)>> >>,
           << <<I(2), I(-1), I(0)>>, <<R(1, 2), I(3), I(-2)>>, <<I(0), I(0), I(0)>> >> }
Mats4 == { << <<I(1), I(2), I(3), I(4)>>, <<I(5), I(6), I(7), I(8)>>,
              <<I(9), I(10), I(11), I(13)>>, <<I(-1), I(2), I(-3), I(5)>> >>,
           << <<I(0), I(0), I(0), I(1)>>, <<I(0), I(1), I(0), I(0)>>,
              <<I(0), I(0), I(-1), I(0)>>, <<I(1), I(0), I(0), I(0)>> >>,
           << <<I(1), I(0), I(0), R(1, 2)>>, <<I(0), I(1), I(0), I(0)>>,
              <<I(0), I(0), I(1), I(0)>>, <<R(1, 2), I(0), I(0), I(2)>> >> }
=============================================================================
