-------------------------------- MODULE Laws --------------------------------
(***************************************************************************)
(* Multi-step behaviours: a *program* is a straight-line sequence of       *)
(* public calls over a small register file; the state machine executes it  *)
(* one call per step (`pc`, `regs`).  Each program ends with assertions    *)
(* relating registers - the algebraic laws of C09 (boosts), C10            *)
(* (rotations) and C11 (vector space, dot, cross, unit).                   *)
(*                                                                         *)
(* TLC checks `LawHolds` in every final state: the *specification's own*   *)
(* definitions (Algebra.tla) satisfy the laws on the exact lattice - this  *)
(* is what validates the oracle used for C02.  Each finished behaviour is  *)
(* printed ("@@PROG") and replayed into the real code: every register is   *)
(* compared with the specification's register after each step, operands    *)
(* being stored in varying coordinate systems and intermediate results     *)
(* staying in whatever system the code returned them in, and each          *)
(* assertion is also evaluated on the code's own outputs (no oracle).      *)
(***************************************************************************)
EXTENDS Eval, Lattice, Json

CONSTANT Group      \* "boost" | "rot" | "space" | "all"

VARIABLES prog, pc, regs
vars == <<prog, pc, regs>>

NRegs == 12
Empty == <<"none">>

Ld(d, v)            == [op |-> "load", dst |-> d, a |-> 0, b |-> 0, p |-> <<v>>]
U(op, d, a, p)      == [op |-> op, dst |-> d, a |-> a, b |-> 0, p |-> p]
Bi(op, d, a, b, p)  == [op |-> op, dst |-> d, a |-> a, b |-> b, p |-> p]
Prog(name, code, asserts) == [name |-> name, code |-> code, asserts |-> asserts]
Eq(i, j)   == <<"eq", i, j>>

Exec(ins, RG) ==
    IF ins.op = "load" THEN <<"vec", ins.p[1]>>
    ELSE LET ra == RG[ins.a]
             rb == IF ins.b = 0 THEN Empty ELSE RG[ins.b]
         IN  IF ra[1] # "vec" \/ (ins.b # 0 /\ rb[1] # "vec") THEN <<"undef">>
             ELSE IF ~IsRat(ra[2]) \/ (ins.b # 0 /\ ~IsRat(rb[2])) THEN <<"irr">>
             ELSE Eval(ins.op, ra[2], IF ins.b = 0 THEN None ELSE rb[2], ins.p)

\* a register holds an exact value when all its components are rational
Exact(r) == \/ r[1] = "num" /\ IsQ(r[2])
            \/ r[1] = "vec" /\ IsRat(r[2])
Holds(a, RG) == a[1] = "eq" /\ (Exact(RG[a[2]]) /\ Exact(RG[a[3]]) => RG[a[2]] = RG[a[3]])
Decided(a, RG) == Exact(RG[a[2]]) /\ Exact(RG[a[3]])

\* ------------------------------------------------------------- law lattice
LV2 == IF Tier = "quick" THEN { V2(3, 4), V2(-5, 12), V2(2, -3) } ELSE { V2(3, 4), V2(-5, 12), V2(2, -3), V2(0, -1), V2(-8, -15) }
LV3 == IF Tier = "quick" THEN { V3(3, 4, 12), V3(-9, 12, -20), V3(1, 2, 3) }
       ELSE { V3(3, 4, 12), V3(-9, 12, -20), V3(1, 2, 3), V3(12, -16, 15), V3(-2, 1, -1), V3(0, 0, 1) }
LV4 == IF Tier = "quick" THEN { V4(3, 4, 12, 85), V4(-9, 12, -20, 65), V4(1, 2, 3, 4), V4(3, 4, 12, 13) }
       ELSE { V4(3, 4, 12, 85), V4(-9, 12, -20, 65), V4(1, 2, 3, 4), V4(3, 4, 12, 13), V4(12, -16, 15, 65),
              V4(3, 4, 12, 5), V4(0, 0, 3, 5) }
LV4q == { V4(3, 4, 12, 85), V4(-9, 12, -20, 65), V4(1, 2, 3, 4), V4(3, 4, 12, 13) }   \* keeps mink_p4 inside 32 bits
LVec(n) == IF n = 2 THEN LV2 ELSE IF n = 3 THEN LV3 ELSE LV4
LB3 == IF Tier = "quick"
       THEN { <<R(1, 5), R(2, 5), R(2, 5)>>, <<R(-8, 91), R(12, 91), R(-24, 91)>>, <<I(0), I(0), R(4, 5)>> }
       ELSE { <<R(1, 5), R(2, 5), R(2, 5)>>, <<R(-8, 91), R(12, 91), R(-24, 91)>>, <<I(0), I(0), R(4, 5)>>,
              <<R(-12, 13), I(0), I(0)>>, <<R(8, 15), R(-4, 15), R(8, 15)>> }
LBeta == IF Tier = "quick" THEN { R(3, 5), R(-5, 13) } ELSE { R(3, 5), R(-5, 13), R(4, 5), R(-24, 25) }
\* ultra-relativistic stratum: single boosts only (two of them in a row overflow TLC's 32-bit integers)
LBetaU == IF Tier = "quick" THEN LBeta ELSE LBeta \cup { R(4900, 4901), R(-40, 41) }
LP4 == { V4(3, 4, 12, 85), V4(-9, 12, -20, 65), V4(0, 0, 3, 5) }
LAng == IF Tier = "quick" THEN { <<R(3, 5), R(4, 5)>>, <<R(-5, 13), R(12, 13)>> }
        ELSE { <<R(3, 5), R(4, 5)>>, <<R(-5, 13), R(12, 13)>>, <<I(0), I(-1)>>, <<R(-8, 17), R(-15, 17)>> }
LFac == { I(-2), R(1, 2), I(3) }
Axes == {"X", "Y", "Z"}
BA(ax) == "boost" \o ax \o "_beta"
GA(ax) == "boost" \o ax \o "_gamma"
RA(ax) == "rotate" \o ax
AV(ax, q) == IF ax = "X" THEN <<q, Zero, Zero>> ELSE IF ax = "Y" THEN <<Zero, q, Zero>> ELSE <<Zero, Zero, q>>
VelAdd(b1, b2) == QDiv(QAdd(b1, b2), QAdd(One, QMul(b1, b2)))
SGamma(b) == IF QSign(b) < 0 THEN QNeg(GammaOf(b)) ELSE GammaOf(b)
NegV(v) == [i \in 1..Len(v) |-> QNeg(v[i])]

\* ------------------------------------------------------------- C09 boosts
BoostLaws ==
    \* Minkowski product of any two vectors is preserved (general velocity)
    { Prog("mink_beta3", << Ld(1, a), Ld(2, b), Ld(3, w), Bi("boost_beta3", 4, 1, 3, None), Bi("boost_beta3", 5, 2, 3, None),
                            Bi("dot", 6, 1, 2, None), Bi("dot", 7, 4, 5, None), U("tau2", 8, 1, None), U("tau2", 9, 4, None) >>,
           << Eq(6, 7), Eq(8, 9) >>) : a \in LV4, b \in LV4, w \in LB3 }
    \cup { Prog("mink_p4", << Ld(1, a), Ld(2, b), Ld(3, p), Bi("boost_p4", 4, 1, 3, None), Bi("boost_p4", 5, 2, 3, None),
                            Bi("dot", 6, 1, 2, None), Bi("dot", 7, 4, 5, None) >>, << Eq(6, 7) >>) : a \in LV4q, b \in LV4q, p \in LP4 }
    \cup { Prog("mink_axis", << Ld(1, a), Ld(2, b), U(BA(ax), 4, 1, <<k>>), U(BA(ax), 5, 2, <<k>>),
                            Bi("dot", 6, 1, 2, None), Bi("dot", 7, 4, 5, None) >>, << Eq(6, 7) >>) : a \in LV4, b \in LV4, ax \in Axes, k \in LBeta }
    \* undone by the opposite boost
    \cup { Prog("inv_beta3", << Ld(1, a), Ld(2, w), Ld(3, NegV(w)), Bi("boost_beta3", 4, 1, 2, None), Bi("boost_beta3", 5, 4, 3, None),
                            Bi("boostCM_of_beta3", 6, 4, 2, None) >>, << Eq(5, 1), Eq(6, 1) >>) : a \in LV4, w \in LB3 }
    \cup { Prog("inv_axis", << Ld(1, a), U(BA(ax), 2, 1, <<k>>), U(BA(ax), 3, 2, <<QNeg(k)>>) >>, << Eq(3, 1) >>) : a \in LV4, ax \in Axes, k \in LBeta }
    \cup { Prog("inv_p4", << Ld(1, a), Ld(2, p), Bi("boost_p4", 3, 1, 2, None), Bi("boostCM_of_p4", 4, 3, 2, None),
                            Bi("boostCM_of", 5, 3, 2, None) >>, << Eq(4, 1), Eq(5, 1) >>) : a \in LV4, p \in LP4 }
    \* composition along an axis = relativistic velocity addition
    \cup { Prog("compose_axis", << Ld(1, a), U(BA(ax), 2, 1, <<k1>>), U(BA(ax), 3, 2, <<k2>>), U(BA(ax), 4, 1, <<VelAdd(k1, k2)>>) >>,
                << Eq(3, 4) >>) : a \in LV4, ax \in Axes, k1 \in LBeta, k2 \in LBeta }
    \* spellings
    \cup { Prog("p4_is_beta3", << Ld(1, a), Ld(2, p), Bi("boost_p4", 3, 1, 2, None), U("to_beta3", 4, 2, None), Bi("boost_beta3", 5, 1, 4, None),
                            Bi("boost", 6, 1, 2, None), Bi("boost", 7, 1, 4, None) >>, << Eq(3, 5), Eq(6, 3), Eq(7, 3) >>) : a \in LV4, p \in LP4 }
    \cup { Prog("axis_spellings", << Ld(1, a), U(BA(ax), 2, 1, <<k>>), Ld(3, AV(ax, k)), Bi("boost_beta3", 4, 1, 3, None),
                            U(GA(ax), 5, 1, <<SGamma(k)>>) >>, << Eq(2, 4), Eq(2, 5) >>) : a \in LV4, ax \in Axes, k \in LBetaU }
    \cup { Prog("cm_spellings", << Ld(1, a), Ld(2, w), Bi("boostCM_of_beta3", 3, 1, 2, None), Bi("boostCM_of", 4, 1, 2, None) >>,
                << Eq(3, 4) >>) : a \in LV4, w \in LB3 }
    \* v.boostCM_of_p4(v) = (0, 0, 0, tau)
    \cup { Prog("cm_rest", << Ld(1, p), Bi("boostCM_of_p4", 2, 1, 1, None), U("tau", 3, 1, None), U("t", 4, 2, None), U("mag2", 5, 2, None),
                            Ld(6, V2(0, 0)), U("rho2", 7, 6, None), U("to_beta3", 8, 1, None), Bi("boostCM_of_beta3", 9, 1, 8, None), Bi("boostCM_of", 10, 1, 1, None) >>,
                << Eq(3, 4), Eq(5, 7), Eq(9, 2), Eq(10, 2) >>) : p \in LP4 \cup {V4(12, -16, 15, 65)} }

\* ---------------------------------------------------------- C10 rotations
RotLaws ==
    \* lengths and dot products preserved, handedness (cross commutes), time untouched
    { Prog("rot_axis_letter", << Ld(1, a), Ld(2, b), U(RA(ax), 3, 1, <<g>>), U(RA(ax), 4, 2, <<g>>), Bi("dot", 5, 1, 2, None), Bi("dot", 6, 3, 4, None),
                                 U("mag2", 7, 1, None), U("mag2", 8, 3, None) >>, << Eq(5, 6), Eq(7, 8) >>) : a \in LV3, b \in LV3, ax \in Axes, g \in LAng }
    \cup { Prog("rot_handed", << Ld(1, a), Ld(2, b), U(RA(ax), 3, 1, <<g>>), U(RA(ax), 4, 2, <<g>>), Bi("cross", 5, 1, 2, None), U(RA(ax), 6, 5, <<g>>),
                                 Bi("cross", 7, 3, 4, None) >>, << Eq(6, 7) >>) : a \in LV3, b \in LV3, ax \in Axes, g \in LAng }
    \cup { Prog("rot_time", << Ld(1, a), U(RA(ax), 2, 1, <<g>>), U("t", 3, 1, None), U("t", 4, 2, None), U("tau2", 5, 1, None), U("tau2", 6, 2, None) >>,
                << Eq(3, 4), Eq(5, 6) >>) : a \in LV4, ax \in Axes, g \in LAng }
    \* additive about a fixed axis, inverted by the opposite angle
    \cup { Prog("rot_additive", << Ld(1, a), U(RA(ax), 2, 1, <<g>>), U(RA(ax), 3, 2, <<h>>), U(RA(ax), 4, 1, <<AngAdd(g, h)>>), U(RA(ax), 5, 2, <<AngNeg(g)>>) >>,
                << Eq(3, 4), Eq(5, 1) >>) : a \in LV3 \cup {V4(-9, 12, -20, 65)}, ax \in Axes, g \in LAng, h \in LAng }
    \cup { Prog("rot2d", << Ld(1, a), U("rotateZ", 2, 1, <<g>>), U("rotateZ", 3, 2, <<h>>), U("rotateZ", 4, 1, <<AngAdd(g, h)>>), U("rho2", 5, 1, None), U("rho2", 6, 2, None) >>,
                << Eq(3, 4), Eq(5, 6) >>) : a \in LV2, g \in LAng, h \in LAng }
    \* rotate_axis about a coordinate axis = rotateX/Y/Z; axis length ignored; additive; general axis preserves dot
    \cup { Prog("axis_is_letter", << Ld(1, a), Ld(2, AV(ax, l)), Bi("rotate_axis", 3, 1, 2, <<g>>), U(RA(ax), 4, 1, <<g>>) >>, << Eq(3, 4) >>)
             : a \in LV3 \cup {V4(-9, 12, -20, 65)}, ax \in Axes, l \in {I(1), I(3), R(1, 2)}, g \in LAng }
    \cup { Prog("axis_general", << Ld(1, a), Ld(2, b), Ld(3, VScale(u, l)), Ld(4, u), Bi("rotate_axis", 5, 1, 3, <<g>>), Bi("rotate_axis", 6, 2, 4, <<g>>),
                                  Bi("dot", 7, 1, 2, None), Bi("dot", 8, 5, 6, None), Bi("rotate_axis", 9, 5, 4, <<AngNeg(g)>>) >>, << Eq(7, 8), Eq(9, 1) >>)
             : a \in LV3, b \in {V3(1, 2, 3)}, u \in Unit3Quick, l \in {I(3), R(1, 2)}, g \in LAng }
    \* quaternion (cos a/2; n sin a/2) = rotate_axis(n, a)
    \cup { Prog("quat_is_axis", << Ld(1, a), Ld(2, u), U("rotate_quaternion", 3, 1, << <<h[1], QMul(h[2], u[1]), QMul(h[2], u[2]), QMul(h[2], u[3])>> >>),
                                  Bi("rotate_axis", 4, 1, 2, <<AngAdd(h, h)>>) >>, << Eq(3, 4) >>) : a \in LV3 \cup {V4(1, 2, 3, 4)}, u \in Unit3Quick, h \in LAng }
    \* rotate_euler(phi, theta, psi, "abc") = A(-psi) B(-theta) C(-phi); rotate_nautical
    \cup { Prog("euler_product", << Ld(1, a), U("rotate_euler", 2, 1, <<e[1], e[2], e[3], o>>),
                                   U(RA(IF o[3] = "x" THEN "X" ELSE IF o[3] = "y" THEN "Y" ELSE "Z"), 3, 1, <<AngNeg(e[1])>>),
                                   U(RA(IF o[2] = "x" THEN "X" ELSE IF o[2] = "y" THEN "Y" ELSE "Z"), 4, 3, <<AngNeg(e[2])>>),
                                   U(RA(IF o[1] = "x" THEN "X" ELSE IF o[1] = "y" THEN "Y" ELSE "Z"), 5, 4, <<AngNeg(e[3])>>) >>, << Eq(2, 5) >>)
             : a \in {V3(3, 4, 12), V3(1, 2, 3), V4(-9, 12, -20, 65)}, e \in EulerTriples, o \in EulerOrders }
    \cup { Prog("nautical", << Ld(1, a), U("rotate_nautical", 2, 1, <<e[1], e[2], e[3]>>), U("rotate_euler", 3, 1, <<e[3], e[2], e[1], <<"z", "y", "x">> >>) >>, << Eq(2, 3) >>)
             : a \in {V3(3, 4, 12), V3(1, 2, 3), V4(-9, 12, -20, 65)}, e \in EulerTriples }

\* ------------------------------------------------------- C11 vector space
SpaceLaws ==
    UNION {
      { Prog("add_comm_assoc", << Ld(1, a), Ld(2, b), Ld(3, cc), Bi("add", 4, 1, 2, None), Bi("add", 5, 2, 1, None), Bi("add", 6, 4, 3, None),
                                  Bi("add", 7, 2, 3, None), Bi("add", 8, 1, 7, None), Bi("subtract", 9, 4, 2, None) >>, << Eq(4, 5), Eq(6, 8), Eq(9, 1) >>)
          : a \in LVec(n), b \in LVec(n), cc \in LVec(n) }
      \cup { Prog("scale_laws", << Ld(1, a), Ld(2, b), Bi("add", 3, 1, 2, None), U("scale", 4, 3, <<f>>), U("scale", 5, 1, <<f>>), U("scale", 6, 2, <<f>>), Bi("add", 7, 5, 6, None),
                                   U("scale", 8, 5, <<g>>), U("scale", 9, 1, <<QMul(f, g)>>) >>, << Eq(4, 7), Eq(8, 9) >>)
          : a \in LVec(n), b \in LVec(n), f \in LFac, g \in {I(-1), R(1, 2)} }
      \cup { Prog("neg_sub", << Ld(1, a), Ld(2, b), U("neg", 3, 2, None), U("scale", 4, 2, <<MinusOne>>), Bi("add", 5, 1, 3, None), Bi("subtract", 6, 1, 2, None),
                                U("divide", 7, 1, <<I(-2)>>), U("scale", 8, 1, <<R(-1, 2)>>) >>, << Eq(3, 4), Eq(5, 6), Eq(7, 8) >>)
          : a \in LVec(n), b \in LVec(n) }
      \cup { Prog("dot_laws", << Ld(1, a), Ld(2, b), Ld(3, cc), Bi("dot", 4, 1, 2, None), Bi("dot", 5, 2, 1, None), Bi("add", 6, 2, 3, None), Bi("dot", 7, 1, 6, None),
                                 Bi("dot", 8, 1, 3, None), U("scale", 9, 2, <<f>>), Bi("dot", 10, 1, 9, None) >>,
                   << Eq(4, 5), <<"lin", 7, 4, 8, One>>, <<"lin", 10, 9999, 4, f>> >>)
          : a \in LVec(n), b \in LVec(n), cc \in LVec(n), f \in {I(3)} }
      \cup { Prog("self_dot", << Ld(1, a), Bi("dot", 2, 1, 1, None), U(IF n = 2 THEN "rho2" ELSE IF n = 3 THEN "mag2" ELSE "tau2", 3, 1, None), U("square", 4, 1, None) >>,
                   << Eq(2, 3), Eq(2, 4) >>) : a \in VecOfDim(n) }
      : n \in 2..4 }
    \cup { Prog("cross_laws", << Ld(1, a), Ld(2, b), Bi("cross", 3, 1, 2, None), Bi("cross", 4, 2, 1, None), U("neg", 5, 4, None), Bi("dot", 6, 3, 1, None), Bi("dot", 7, 3, 2, None),
                                 Ld(8, V2(0, 0)), U("rho2", 9, 8, None), U("mag2", 10, 3, None) >>, << Eq(3, 5), Eq(6, 9), Eq(7, 9) >>) : a \in Vec3, b \in LV3 }
    \cup { Prog("lagrange", << Ld(1, a), Ld(2, b), Bi("cross", 3, 1, 2, None), U("mag2", 4, 3, None), U("mag2", 5, 1, None), U("mag2", 6, 2, None), Bi("dot", 7, 1, 2, None) >>,
                 << <<"lagr", 4, 5, 6, 7>> >>) : a \in Vec3, b \in LV3 }
    \cup { Prog("unit_laws", << Ld(1, a), U("unit", 2, 1, None), U("abs", 3, 2, None), U("abs", 4, 1, None), U("unit", 5, 2, None) >>,
                 << Eq(5, 2), <<"one", 3>>, <<"par", 2, 4, 1>> >>) : a \in Vec2 \cup Vec3 \cup Vec4 }
    \cup { Prog("norm_functions", << Ld(1, a), U("abs", 2, 1, None), U("square", 3, 1, None), U("np_sqrt", 4, 1, None), U("np_cbrt", 5, 1, None), U("np_power", 6, 1, <<I(3)>>),
                                     U("np_power", 7, 1, <<I(2)>>) >>, << <<"sq", 3, 2>>, <<"sq", 7, 2>> >>) : a \in Vec2 \cup Vec3 \cup Vec4 }

\* assertions beyond equality (arithmetic on number registers; register 9999 = the constant 0):
\*   <<"lin", r, s, t, f>>   RG[r] = RG[s] + f RG[t]          (bilinearity of dot)
\*   <<"lagr", c, a, b, d>>  RG[c] = RG[a] RG[b] - RG[d]^2     (Lagrange identity, c = |a x b|^2)
\*   <<"one", r>>            |RG[r]| = 1                    (unit vectors have norm one)
\*   <<"par", u, n, v>>      RG[u] * RG[n] = RG[v]            (unit(v) |v| = v, up to the sign of tau in 4-D)
\*   <<"sq", s, n>>          RG[s] = RG[n]^2                 (v**2 = abs(v)^2 up to the sign of tau2)
NumOf(RG, i) == IF i = 9999 THEN Zero ELSE RG[i][2]
ExactN(RG, i) == i = 9999 \/ (RG[i][1] = "num" /\ IsQ(RG[i][2]))
HoldsX(a, RG) ==
    IF a[1] = "eq" THEN Holds(a, RG)
    ELSE IF a[1] = "lin" THEN (ExactN(RG, a[2]) /\ ExactN(RG, a[3]) /\ ExactN(RG, a[4])
                               => NumOf(RG, a[2]) = QAdd(NumOf(RG, a[3]), QMul(a[5], NumOf(RG, a[4]))))
    ELSE IF a[1] = "lagr" THEN (ExactN(RG, a[2]) /\ ExactN(RG, a[3]) /\ ExactN(RG, a[4]) /\ ExactN(RG, a[5])
                               => NumOf(RG, a[2]) = QSub(QMul(NumOf(RG, a[3]), NumOf(RG, a[4])), QMul(NumOf(RG, a[5]), NumOf(RG, a[5]))))
    ELSE IF a[1] = "one" THEN (ExactN(RG, a[2]) => QAbs(NumOf(RG, a[2])) = One)
    ELSE IF a[1] = "par" THEN (Exact(RG[a[2]]) /\ RG[a[2]][1] = "vec" /\ ExactN(RG, a[3]) /\ Exact(RG[a[4]])
                               => VScale(RG[a[2]][2], QAbs(NumOf(RG, a[3]))) = RG[a[4]][2])
    ELSE IF a[1] = "sq" THEN (ExactN(RG, a[2]) /\ ExactN(RG, a[3]) => QAbs(NumOf(RG, a[2])) = QMul(NumOf(RG, a[3]), NumOf(RG, a[3])))
    ELSE FALSE
DecidedX(a, RG) ==
    IF a[1] = "eq" THEN Decided(a, RG)
    ELSE IF a[1] = "lin" THEN ExactN(RG, a[2]) /\ ExactN(RG, a[3]) /\ ExactN(RG, a[4])
    ELSE IF a[1] = "lagr" THEN ExactN(RG, a[2]) /\ ExactN(RG, a[3]) /\ ExactN(RG, a[4]) /\ ExactN(RG, a[5])
    ELSE IF a[1] = "one" THEN ExactN(RG, a[2])
    ELSE IF a[1] = "par" THEN Exact(RG[a[2]]) /\ RG[a[2]][1] = "vec" /\ ExactN(RG, a[3]) /\ Exact(RG[a[4]])
    ELSE ExactN(RG, a[2]) /\ ExactN(RG, a[3])

Programs == CASE Group = "boost" -> BoostLaws [] Group = "rot" -> RotLaws [] Group = "space" -> SpaceLaws
              [] OTHER -> BoostLaws \cup RotLaws \cup SpaceLaws

Init == prog \in Programs /\ pc = 1 /\ regs = [i \in 1..NRegs |-> Empty]
Step == /\ pc <= Len(prog.code)
        /\ LET ins == prog.code[pc] IN regs' = [regs EXCEPT ![ins.dst] = Exec(ins, regs)]
        /\ pc' = pc + 1
        /\ UNCHANGED prog
Done == pc > Len(prog.code) /\ UNCHANGED vars
Next == Step \/ Done
Spec == Init /\ [][Next]_vars

Finished == pc > Len(prog.code)
\* The specification's own definitions satisfy every law on the exact lattice.
LawHolds == Finished => \A i \in 1..Len(prog.asserts) : HoldsX(prog.asserts[i], regs)
\* registers are written at most once and only by the instruction that names them
SingleAssignment == \A i \in 1..NRegs : regs[i] # Empty => \E k \in 1..(pc - 1) : prog.code[k].dst = i
Emit == Finished => PrintT("@@PROG " \o ToJson([name |-> prog.name, code |-> prog.code, asserts |-> prog.asserts, regs |-> regs,
                                                decided |-> [i \in 1..Len(prog.asserts) |-> IF DecidedX(prog.asserts[i], regs) THEN "T" ELSE "F"]]))
=============================================================================
