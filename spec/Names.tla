------------------------------- MODULE Names -------------------------------
(***************************************************************************)
(* The 19 recognised coordinate names, their three groups and synonym      *)
(* table, and the property-level classification of a set of names given to *)
(* a constructor (C06): Reject, or the dimension, coordinate system,       *)
(* flavor and the map name -> geometric field.  TLC enumerates every       *)
(* subset of at most 5 names (16 664 sets), checks the structural          *)
(* invariants, and prints each state ("@@NAMES") for execution against     *)
(* every constructor.  The synonym table is also the model of C14.         *)
(***************************************************************************)
EXTENDS Integers, Sequences, FiniteSets, TLC, Json

Names == << "x", "px", "y", "py", "rho", "pt", "phi", "z", "pz", "theta", "eta",
            "t", "E", "e", "energy", "tau", "M", "m", "mass" >>
NameSet == { Names[i] : i \in 1..Len(Names) }

\* synonym -> geometric name
Generic(n) == CASE n = "px" -> "x" [] n = "py" -> "y" [] n = "pt" -> "rho" [] n = "pz" -> "z"
                [] n \in {"E", "e", "energy"} -> "t" [] n \in {"M", "m", "mass"} -> "tau"
                [] OTHER -> n
IsMomentumName(n) == Generic(n) # n
GenericNames == { Generic(n) : n \in NameSet }     \* x y rho phi z theta eta t tau

Azimuthal(g) == g \in {"x", "y", "rho", "phi"}
Longitudinal(g) == g \in {"z", "theta", "eta"}
Temporal(g) == g \in {"t", "tau"}

\* the documented coordinate sets: x,y | rho,phi ; optionally z | theta | eta ; then optionally t | tau
ValidGeneric(G) ==
    LET az == { g \in G : Azimuthal(g) }
        lo == { g \in G : Longitudinal(g) }
        tm == { g \in G : Temporal(g) }
    IN  /\ az \in { {"x", "y"}, {"rho", "phi"} }
        /\ Cardinality(lo) <= 1
        /\ Cardinality(tm) <= 1
        /\ (tm # {} => lo # {})

Reject == [ok |-> "F", dim |-> 0, az |-> "none", lon |-> "none", tmp |-> "none", flavor |-> "none"]

Classify(S) ==
    LET G == { Generic(n) : n \in S }
    IN  IF Cardinality(G) # Cardinality(S) THEN Reject          \* a coordinate spelled twice through synonyms
        ELSE IF ~ValidGeneric(G) THEN Reject
        ELSE [ ok |-> "T",
               dim |-> 2 + (IF \E g \in G : Longitudinal(g) THEN 1 ELSE 0) + (IF \E g \in G : Temporal(g) THEN 1 ELSE 0),
               az |-> IF "x" \in G THEN "xy" ELSE "rhophi",
               lon |-> IF "z" \in G THEN "z" ELSE IF "theta" \in G THEN "theta" ELSE IF "eta" \in G THEN "eta" ELSE "none",
               tmp |-> IF "t" \in G THEN "t" ELSE IF "tau" \in G THEN "tau" ELSE "none",
               flavor |-> IF \E n \in S : IsMomentumName(n) THEN "momentum" ELSE "generic" ]

\* array constructors may carry extra names along: some subset must classify
HasValidSubset(S) == \E T \in SUBSET S : Classify(T).ok = "T"

VARIABLE s
Subsets5 == { T \in SUBSET NameSet : Cardinality(T) <= 5 }
Init == s \in Subsets5
Next == UNCHANGED s
Spec == Init /\ [][Next]_s

SortedNames(S) == [ i \in 1..Len(Names) |-> IF Names[i] \in S THEN "T" ELSE "F" ]
Emit == PrintT("@@NAMES " \o ToJson([names |-> SortedNames(s), cls |-> Classify(s),
                                     subset |-> IF HasValidSubset(s) THEN "T" ELSE "F"]))

\* ---- invariants of the classification itself
\* accepted sets have exactly `dim` names, all in distinct groups' slots
SizeMatches == Classify(s).ok = "T" => Cardinality(s) = Classify(s).dim
\* any accepted set stays accepted, with the same system, when a name is replaced by a synonym
SynonymInvariant ==
    Classify(s).ok = "T" =>
      \A n \in s, n2 \in NameSet :
         (Generic(n2) = Generic(n) /\ n2 \notin s) =>
            LET c2 == Classify((s \ {n}) \cup {n2})
            IN  c2.ok = "T" /\ c2.dim = Classify(s).dim /\ c2.az = Classify(s).az
                /\ c2.lon = Classify(s).lon /\ c2.tmp = Classify(s).tmp
\* removing the longitudinal coordinate of a 4-D set is never accepted (temporal needs longitudinal)
TemporalNeedsLongitudinal ==
    Classify(s).ok = "T" /\ Classify(s).dim = 4 =>
      \A n \in s : Longitudinal(Generic(n)) => Classify(s \ {n}).ok = "F"
=============================================================================
