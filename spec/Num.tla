------------------------------- MODULE Num -------------------------------
(***************************************************************************)
(* Exact scalar domain of the specification.                               *)
(*                                                                         *)
(* A number is a *term*: a tuple whose head is a string.                   *)
(*   <<"q", n, d>>         the rational n/d in lowest terms, d > 0         *)
(*   <<"sqrt", a>>         the non-negative root of a term a >= 0          *)
(*   <<"add"|"sub"|"mul"|"div", a, b>>, <<"neg", a>>, <<"abs", a>>         *)
(*   <<"atan2", y, x>>     angle of the ray (x, y) in (-pi, pi]            *)
(*   <<"asinh", a>>, <<"atanh", a>>, <<"acos", a>>, <<"log", a>>           *)
(*   <<"wrap", a>>         a reduced into [-pi, pi] (ties +-pi: either)    *)
(*   <<"pi">>, <<"inf">>, <<"ninf">>                                       *)
(* Constructors fold to "q" whenever all arguments are rational, so on the *)
(* Pythagorean part of the lattice TLC computes and compares *exact*       *)
(* values; elsewhere the term is the definition that the conformance       *)
(* harness evaluates with 60-digit arithmetic (the harness interprets the  *)
(* primitive heads only; every definition lives in the TLA+ modules).      *)
(* TLC integers are 32 bit and overflow is an error, never a wrap: the     *)
(* lattice constants are chosen so that intermediate products stay small.  *)
(***************************************************************************)
EXTENDS Integers, Sequences, TLC

IAbs(n) == IF n < 0 THEN -n ELSE n
ISign(n) == IF n < 0 THEN -1 ELSE IF n = 0 THEN 0 ELSE 1

RECURSIVE GCD(_, _)
GCD(a, b) == IF b = 0 THEN a ELSE GCD(b, a % b)

RECURSIVE ISqrtIter(_, _)
ISqrtIter(n, x) == LET y == (x + n \div x) \div 2
                   IN  IF y >= x THEN x ELSE ISqrtIter(n, y)
ISqrt(n) == IF n < 2 THEN n ELSE ISqrtIter(n, n)
IsSquare(n) == n >= 0 /\ LET r == ISqrt(n) IN r * r = n

\* ------------------------------------------------------------- rationals
Q(n, d) == LET s == IF d < 0 THEN -1 ELSE 1
               g == GCD(IAbs(n), IAbs(d))
           IN  <<"q", (s * n) \div g, (s * d) \div g>>
I(n)    == <<"q", n, 1>>
Zero    == <<"q", 0, 1>>
One     == <<"q", 1, 1>>
Two     == <<"q", 2, 1>>
Half    == <<"q", 1, 2>>
MinusOne == <<"q", -1, 1>>

IsQ(t) == t[1] = "q"
Nm(t)  == t[2]
Dn(t)  == t[3]

\* (cross-cancelling before multiplying keeps intermediates inside 32 bits)
QAdd(a, b) == LET g == GCD(Dn(a), Dn(b))
              IN  Q(Nm(a) * (Dn(b) \div g) + Nm(b) * (Dn(a) \div g), (Dn(a) \div g) * Dn(b))
QMul(a, b) == LET g1 == GCD(IAbs(Nm(a)), Dn(b))
                  g2 == GCD(IAbs(Nm(b)), Dn(a))
              IN  IF Nm(a) = 0 \/ Nm(b) = 0 THEN <<"q", 0, 1>>
                  ELSE <<"q", (Nm(a) \div g1) * (Nm(b) \div g2), (Dn(a) \div g2) * (Dn(b) \div g1)>>
QInv(a)    == IF Nm(a) < 0 THEN <<"q", -Dn(a), -Nm(a)>> ELSE <<"q", Dn(a), Nm(a)>>   \* a # 0
QDiv(a, b) == QMul(a, QInv(b))                        \* b # 0
QNeg(a)    == <<"q", -Nm(a), Dn(a)>>
QSub(a, b) == QAdd(a, QNeg(b))
QAbs(a)    == <<"q", IAbs(Nm(a)), Dn(a)>>
QSign(a)   == ISign(Nm(a))
QLt(a, b)  == Nm(a) * Dn(b) < Nm(b) * Dn(a)
QLe(a, b)  == Nm(a) * Dn(b) <= Nm(b) * Dn(a)
QMax(a, b) == IF QLt(a, b) THEN b ELSE a
QMin(a, b) == IF QLt(a, b) THEN a ELSE b
QIsSquare(a) == Nm(a) >= 0 /\ IsSquare(Nm(a)) /\ IsSquare(Dn(a))
QSqrt(a)   == Q(ISqrt(Nm(a)), ISqrt(Dn(a)))          \* only if QIsSquare(a)

\* ------------------------------------------------------------------ terms
Pi   == <<"pi">>
Inf  == <<"inf">>
NInf == <<"ninf">>
IsInf(t) == t = Inf \/ t = NInf

Add(a, b) == IF IsQ(a) /\ IsQ(b) THEN QAdd(a, b)
             ELSE IF a = Zero THEN b ELSE IF b = Zero THEN a
             ELSE <<"add", a, b>>
Neg(a)    == IF IsQ(a) THEN QNeg(a)
             ELSE IF a = Inf THEN NInf ELSE IF a = NInf THEN Inf
             ELSE IF a[1] = "neg" THEN a[2] ELSE <<"neg", a>>
Sub(a, b) == IF IsQ(a) /\ IsQ(b) THEN QSub(a, b)
             ELSE IF b = Zero THEN a ELSE IF a = Zero THEN Neg(b)
             ELSE <<"sub", a, b>>
Mul(a, b) == IF IsQ(a) /\ IsQ(b) THEN QMul(a, b)
             ELSE IF a = Zero \/ b = Zero THEN Zero
             ELSE IF a = One THEN b ELSE IF b = One THEN a
             ELSE <<"mul", a, b>>
Div(a, b) == IF IsQ(a) /\ IsQ(b) /\ b # Zero THEN QDiv(a, b)
             ELSE IF b = One THEN a
             ELSE IF a = Zero /\ b # Zero THEN Zero
             ELSE <<"div", a, b>>
Sq(a)     == Mul(a, a)
Sqrt(a)   == IF IsQ(a) /\ QIsSquare(a) THEN QSqrt(a) ELSE <<"sqrt", a>>
Abs(a)    == IF IsQ(a) THEN QAbs(a) ELSE <<"abs", a>>

\* angle of the ray (x, y); atan2(0,0) = 0 by the IEEE/NumPy convention the
\* documentation relies on ("phi of the zero vector is 0").
Atan2(y, x) == IF IsQ(y) /\ IsQ(x) /\ y = Zero /\ QSign(x) >= 0 THEN Zero
               ELSE IF IsQ(y) /\ IsQ(x) /\ y = Zero THEN Pi
               ELSE <<"atan2", y, x>>
Asinh(a)  == IF a = Zero THEN Zero ELSE <<"asinh", a>>
Atanh(a)  == IF a = Zero THEN Zero ELSE <<"atanh", a>>
Acos(a)   == IF a = One THEN Zero ELSE IF a = MinusOne THEN Pi ELSE <<"acos", a>>
Log(a)    == IF a = One THEN Zero ELSE <<"log", a>>
Wrap(a)   == IF a = Zero THEN Zero ELSE <<"wrap", a>>

\* sign(a) * sqrt(|a|) for rational a  (tau from tau2, documented convention)
SgnSqrt(a) == IF QSign(a) >= 0 THEN Sqrt(a) ELSE Neg(Sqrt(QNeg(a)))

\* ---------------------------------------------- exact comparisons with roots
\* sign of  p - k * sqrt(m)   for rationals p, k, m with m >= 0
SignPMinusKSqrt(p, k, m) ==
    LET ks == QSign(k) * (IF m = Zero THEN 0 ELSE 1)    \* sign of k*sqrt(m)
        ps == QSign(p)
    IN  IF ks = 0 THEN ps
        ELSE IF ps = 0 THEN -ks
        ELSE IF ps # ks THEN ps
        ELSE \* same non-zero sign s: compare squares
             LET lhs == QMul(p, p)
                 rhs == QMul(QMul(k, k), m)
             IN  IF lhs = rhs THEN 0
                 ELSE IF QLt(rhs, lhs) THEN ps ELSE -ps
=============================================================================
