------------------------------ MODULE ObjectSM ------------------------------
(***************************************************************************)
(* C15: one mutable object vector as a state machine.                      *)
(*                                                                         *)
(* State `obj`: flavor, and per coordinate group the *stored* record       *)
(*    az  = <<"xy", x, y>>  |  <<"rhophi", rho, <<c, s>>>>                 *)
(*    lon = <<"none">> | <<"z", z>> | <<"theta", <<c, s>>>> | <<"eta", k>> *)
(*    tmp = <<"none">> | <<"t", t>> | <<"tau", tau>>                       *)
(* with exact terms (module Num); angles are points (cos, sin) of the unit *)
(* circle and eta is stored as k = e^eta, so that the denotation           *)
(* (Cartesian components) needs no transcendental function.                *)
(*                                                                         *)
(* Actions: Set(name, value) for every coordinate of every group; the      *)
(* in-place operators += -= *= /=; and operations that must raise and      *)
(* leave the object untouched.  `hist` records the behaviour for replay.   *)
(* Safety properties (checked by TLC, then on the real object by replaying *)
(* every generated history, and on recorded traces by ObjectSMTrace):      *)
(*   ReadsBack, PartnerPreserved, OtherGroupsUntouched, InPlaceKeepsSystem,*)
(*   InPlaceIsFunctional, RaiseLeavesUnchanged.                            *)
(***************************************************************************)
EXTENDS Algebra, Json

CONSTANTS MaxLen,      \* length of the histories that are explored / printed
          Seeds        \* "quick" | "full": how many initial objects

VARIABLES obj, hist, start
vars == <<obj, hist, start>>

None1 == <<"none">>

\* ------------------------------------------------------------ denotation
ODim(o) == 2 + (IF o.lon = None1 THEN 0 ELSE 1) + (IF o.tmp = None1 THEN 0 ELSE 1)
GX(o) == IF o.az[1] = "xy" THEN o.az[2] ELSE Mul(o.az[2], o.az[3][1])
GY(o) == IF o.az[1] = "xy" THEN o.az[3] ELSE Mul(o.az[2], o.az[3][2])
GRho(o) == IF o.az[1] = "rhophi" THEN o.az[2] ELSE Sqrt(Add(Sq(o.az[2]), Sq(o.az[3])))
\* phi as a circle point; atan2(0, 0) = 0
GPhi(o) == IF o.az[1] = "rhophi" THEN o.az[3]
           ELSE IF GRho(o) = Zero THEN <<One, Zero>> ELSE <<Div(o.az[2], GRho(o)), Div(o.az[3], GRho(o))>>
\* z = rho cot(theta) = rho sinh(eta), eta = log k
GZ(o) == IF o.lon[1] = "z" THEN o.lon[2]
         ELSE IF o.lon[1] = "theta" THEN Div(Mul(GRho(o), o.lon[2][1]), o.lon[2][2])
         ELSE Mul(GRho(o), Mul(Half, Sub(o.lon[2], Div(One, o.lon[2]))))
GMag2(o) == Add(Sq(GRho(o)), Sq(GZ(o)))
\* t = sqrt(max(copysign(tau^2, tau) + mag^2, 0))
GT(o) == IF o.tmp[1] = "t" THEN o.tmp[2]
         ELSE LET s == IF IsQ(o.tmp[2]) /\ QSign(o.tmp[2]) < 0 THEN Neg(Sq(o.tmp[2])) ELSE Sq(o.tmp[2])
              IN  Sqrt(Add(s, GMag2(o)))
Cart(o) == IF ODim(o) = 2 THEN <<GX(o), GY(o)>>
           ELSE IF ODim(o) = 3 THEN <<GX(o), GY(o), GZ(o)>>
           ELSE <<GX(o), GY(o), GZ(o), GT(o)>>
System(o) == <<o.az[1], o.lon[1], o.tmp[1]>>

\* ------------------------------------------ storing a Cartesian vector in a system
StoreAz(kind, x, y) ==
    IF kind = "xy" THEN <<"xy", x, y>>
    ELSE LET r == Sqrt(Add(Sq(x), Sq(y)))
         IN  <<"rhophi", r, IF r = Zero THEN <<One, Zero>> ELSE <<Div(x, r), Div(y, r)>> >>
StoreLon(kind, x, y, z) ==
    LET r2 == Add(Sq(x), Sq(y))
        r  == Sqrt(r2)
        m  == Sqrt(Add(r2, Sq(z)))
    IN  IF kind = "z" THEN <<"z", z>>
        ELSE IF kind = "theta" THEN <<"theta", IF m = Zero THEN <<One, Zero>> ELSE <<Div(z, m), Div(r, m)>> >>
        ELSE <<"eta", Div(Add(m, z), r)>>
StoreTmp(kind, x, y, z, t) ==
    IF kind = "t" THEN <<"t", t>>
    ELSE <<"tau", SgnSqrt(Sub(Sq(t), Add(Add(Sq(x), Sq(y)), Sq(z))))>>
\* can the Cartesian vector c be stored exactly in system sy (rational radicands whose sign TLC
\* can decide, off the z axis for eta, non-negative time for tau)?
Storable(c, sy) ==
    /\ \A i \in 1..Len(c) : IsQ(c[i])
    /\ (sy[2] = "eta" => Add(Sq(c[1]), Sq(c[2])) # Zero)
    /\ (sy[2] = "theta" => Add(Sq(c[1]), Sq(c[2])) # Zero)
    /\ (sy[3] = "tau" => QSign(c[4]) >= 0)
Store(c, sy, fl) ==
    [ flavor |-> fl,
      az  |-> StoreAz(sy[1], c[1], c[2]),
      lon |-> IF sy[2] = "none" THEN None1 ELSE StoreLon(sy[2], c[1], c[2], c[3]),
      tmp |-> IF sy[3] = "none" THEN None1 ELSE StoreTmp(sy[3], c[1], c[2], c[3], c[4]) ]

\* ------------------------------------------------------------ value lattice
Lengths == { I(5), I(-3), Q(1, 2), I(0) }      \* 0: a falsy value is a value
Radii   == { I(5), I(13) }
Taus    == { I(5), I(60) }
PhiAngles   == { <<Q(3, 5), Q(4, 5)>>, <<Q(-5, 13), Q(12, 13)>>, <<I(0), I(-1)>> }
ThetaAngles == { <<Q(3, 5), Q(4, 5)>>, <<Q(-4, 5), Q(3, 5)>> }       \* sin > 0
EtaKs       == { I(2), Q(1, 3) }                                      \* k = e^eta
SeedVecs == IF Seeds = "quick"
            THEN { <<I(3), I(4)>>, <<I(3), I(4), I(12)>>, <<I(-9), I(12), I(-20), I(65)>> }
            ELSE { <<I(3), I(4)>>, <<I(-5), I(12)>>, <<I(3), I(4), I(12)>>, <<I(-9), I(12), I(-20)>>,
                   <<I(3), I(4), I(12), I(85)>>, <<I(-9), I(12), I(-20), I(65)>> }
AzK == {"xy", "rhophi"}   LonK == {"z", "theta", "eta"}   TmpK == {"t", "tau"}
SystemsOf(n) == IF n = 2 THEN { <<a, "none", "none">> : a \in AzK }
                ELSE IF n = 3 THEN { <<a, l, "none">> : a \in AzK, l \in LonK }
                ELSE { <<a, l, t>> : a \in AzK, l \in LonK, t \in TmpK }
Operands(n) == IF n = 2 THEN { <<I(1), I(2)>>, <<I(-3), I(4)>> }
               ELSE IF n = 3 THEN { <<I(1), I(2), I(2)>>, <<I(-3), I(4), I(12)>> }
               ELSE { <<I(1), I(2), I(2), I(7)>>, <<I(0), I(0), I(0), I(1)>> }
Factors == { I(2), Q(-1, 2) }
Flavors == {"generic", "momentum"}

\* -------------------------------------------------------------- setters
Group(name) == IF name \in {"x", "y", "rho", "phi"} THEN "az"
               ELSE IF name \in {"z", "theta", "eta"} THEN "lon" ELSE "tmp"
ValuesFor(name) == CASE name \in {"x", "y", "z", "t"} -> Lengths
                     [] name = "rho" -> Radii
                     [] name = "tau" -> Taus
                     [] name = "phi" -> PhiAngles
                     [] name = "theta" -> ThetaAngles
                     [] name = "eta" -> EtaKs
\* what the documented setter does: the assigned coordinate takes the value, its partner keeps
\* its (geometric) value, the group is re-stored in the system the name belongs to
AfterSet(o, name, v) ==
    CASE name = "x"   -> [o EXCEPT !.az = <<"xy", v, GY(o)>>]
      [] name = "y"   -> [o EXCEPT !.az = <<"xy", GX(o), v>>]
      [] name = "rho" -> [o EXCEPT !.az = <<"rhophi", v, GPhi(o)>>]
      [] name = "phi" -> [o EXCEPT !.az = <<"rhophi", GRho(o), v>>]
      [] name = "z"     -> [o EXCEPT !.lon = <<"z", v>>]
      [] name = "theta" -> [o EXCEPT !.lon = <<"theta", v>>]
      [] name = "eta"   -> [o EXCEPT !.lon = <<"eta", v>>]
      [] name = "t"   -> [o EXCEPT !.tmp = <<"t", v>>]
      [] name = "tau" -> [o EXCEPT !.tmp = <<"tau", v>>]
HasGroup(o, name) == CASE Group(name) = "az" -> TRUE
                       [] Group(name) = "lon" -> o.lon # None1
                       [] Group(name) = "tmp" -> o.tmp # None1
\* reading a coordinate of the stored record
Get(o, name) == CASE name = "x" -> GX(o) [] name = "y" -> GY(o) [] name = "rho" -> GRho(o) [] name = "phi" -> GPhi(o)
                  [] name = "z" -> GZ(o)
                  [] name = "theta" -> IF o.lon[1] = "theta" THEN o.lon[2] ELSE StoreLon("theta", GX(o), GY(o), GZ(o))[2]
                  [] name = "eta" -> IF o.lon[1] = "eta" THEN o.lon[2] ELSE StoreLon("eta", GX(o), GY(o), GZ(o))[2]
                  [] name = "t" -> GT(o)
                  [] name = "tau" -> IF o.tmp[1] = "tau" THEN o.tmp[2] ELSE StoreTmp("tau", GX(o), GY(o), GZ(o), GT(o))[2]
Partner(name) == CASE name = "x" -> "y" [] name = "y" -> "x" [] name = "rho" -> "phi" [] name = "phi" -> "rho"
                   [] OTHER -> "none"
CoordNames == {"x", "y", "rho", "phi", "z", "theta", "eta", "t", "tau"}

Entry(kind, name, arg, post, raised) == [kind |-> kind, name |-> name, arg |-> arg, post |-> post, raised |-> raised]

\* assigning rho to a vector whose azimuthal part has length zero has no direction to preserve
\* (in rho-phi storage the stored phi of a zero-length result of += / -= is a rounding residue)
HasDirectionFor(o, name) == ~(name = "rho" /\ GRho(o) = Zero)
Set(name, v) ==
    /\ HasGroup(obj, name)
    /\ HasDirectionFor(obj, name)
    /\ obj' = AfterSet(obj, name, v)
    /\ hist' = Append(hist, Entry("set", name, v, obj', "F"))

\* ------------------------------------------------------ in-place operators
InPlaceResult(o, kind, w) ==
    LET c == Cart(o)
    IN  CASE kind = "iadd" -> VAdd(c, w)
          [] kind = "isub" -> VSub(c, w)
          [] kind = "imul" -> VScale(c, w)
          [] kind = "idiv" -> VScale(c, QDiv(One, w))
InPlace(kind, w) ==
    LET c == InPlaceResult(obj, kind, w)
    IN  /\ \A i \in 1..Len(Cart(obj)) : IsQ(Cart(obj)[i])
        /\ Storable(c, System(obj))
        /\ obj' = Store(c, System(obj), obj.flavor)
        /\ hist' = Append(hist, Entry(kind, "", w, obj', "F"))

\* ---------------------------------------------- operations that must raise
\* (adding a number, adding a vector of another dimension, multiplying by a vector,
\*  dividing by a vector): the object is left exactly as it was
BadKinds == {"iadd_number", "iadd_wrong_dimension", "imul_vector", "idiv_vector", "isub_wrong_dimension"}
Bad(kind) ==
    /\ obj' = obj
    /\ hist' = Append(hist, Entry(kind, "", <<>>, obj, "T"))

Init == /\ \E c \in SeedVecs, fl \in Flavors : \E sy \in SystemsOf(Len(c)) :
             Storable(c, sy) /\ obj = Store(c, sy, fl)
        /\ hist = <<>>
        /\ start = obj
Next == /\ Len(hist) < MaxLen
        /\ UNCHANGED start
        /\ \/ \E name \in CoordNames : \E v \in ValuesFor(name) : Set(name, v)
           \/ \E kind \in {"iadd", "isub"} : \E w \in Operands(ODim(obj)) : InPlace(kind, w)
           \/ \E kind \in {"imul", "idiv"} : \E f \in Factors : InPlace(kind, f)
           \/ \E kind \in BadKinds : Bad(kind)
Spec == Init /\ [][Next]_vars

\* ----------------------------------------------------------- properties
Last == hist[Len(hist)]
Exact(o) == \A i \in 1..Len(Cart(o)) : IsQ(Cart(o)[i])
TypeOK == /\ obj.flavor \in Flavors
          /\ obj.az[1] \in AzK /\ obj.lon[1] \in LonK \cup {"none"} /\ obj.tmp[1] \in TmpK \cup {"none"}
          /\ (obj.tmp # None1 => obj.lon # None1)
\* the coordinate just assigned reads back exactly
ReadsBack == [][ (Len(hist') > Len(hist) /\ hist'[Len(hist')].kind = "set")
                   => Get(obj', hist'[Len(hist')].name) = hist'[Len(hist')].arg ]_vars
\* its partner in the same group keeps its value (compared when both are exact rationals)
PartnerPreserved ==
    [][ (Len(hist') > Len(hist) /\ hist'[Len(hist')].kind = "set" /\ Partner(hist'[Len(hist')].name) # "none")
          => LET p == Partner(hist'[Len(hist')].name)
                 before == Get(obj, p)
                 after == Get(obj', p)
             IN  (p \in {"x", "y", "rho"} /\ IsQ(before) /\ IsQ(after)) => before = after ]_vars
\* the stored records of the other groups are untouched
OtherGroupsUntouched ==
    [][ (Len(hist') > Len(hist) /\ hist'[Len(hist')].kind = "set")
          => LET g == Group(hist'[Len(hist')].name)
             IN  /\ (g # "az" => obj'.az = obj.az)
                 /\ (g # "lon" => obj'.lon = obj.lon)
                 /\ (g # "tmp" => obj'.tmp = obj.tmp)
                 /\ obj'.flavor = obj.flavor ]_vars
InPlaceKinds == {"iadd", "isub", "imul", "idiv"}
\* in-place operators keep flavor, dimension and coordinate system
InPlaceKeepsSystem ==
    [][ (Len(hist') > Len(hist) /\ hist'[Len(hist')].kind \in InPlaceKinds)
          => System(obj') = System(obj) /\ obj'.flavor = obj.flavor ]_vars
\* ... and the new value denotes the functional result (exact when everything is rational)
InPlaceIsFunctional ==
    [][ (Len(hist') > Len(hist) /\ hist'[Len(hist')].kind \in InPlaceKinds /\ Exact(obj'))
          => Cart(obj') = InPlaceResult(obj, hist'[Len(hist')].kind, hist'[Len(hist')].arg) ]_vars
\* an operation that raises leaves the object unchanged
RaiseLeavesUnchanged ==
    [][ (Len(hist') > Len(hist) /\ hist'[Len(hist')].raised = "T") => obj' = obj ]_vars

\* printing of complete histories (GEN / simulation configurations)
Emit == Len(hist) = MaxLen => PrintT("@@HIST " \o ToJson([init |-> start, steps |-> hist]))
=============================================================================
