--------------------------- MODULE ObjectSMTrace ---------------------------
(***************************************************************************)
(* code -> spec: validation of traces recorded from real object vectors    *)
(* against ObjectSM.  The trace file (IOEnv.TRACE_FILE, ndjson) holds one  *)
(* event per public mutation attempt with the projected state before and   *)
(* after (exact rationals / circle points where the projection is exact,   *)
(* otherwise only the system heads and a bit-level digest).  For every     *)
(* event TLC evaluates the specification's own action definitions          *)
(* (AfterSet, InPlaceResult, Store, ...) on the logged pre-state and       *)
(* compares with the logged post-state; verdicts are total: every event    *)
(* gets one and the failing conjunct is named ("@@VERDICT").               *)
(***************************************************************************)
EXTENDS ObjectSM, IOUtils, TLCExt

Events == ndJsonDeserialize(IOEnv.TRACE_FILE)

VARIABLE i
tvars == <<i, obj, hist, start>>

IsExact(o) == o.exact = "T"
Strip(o) == [flavor |-> o.flavor, az |-> o.az, lon |-> o.lon, tmp |-> o.tmp]

SysAfterSet(sy, name) ==
    CASE name \in {"x", "y"} -> <<"xy", sy[2], sy[3]>>
      [] name \in {"rho", "phi"} -> <<"rhophi", sy[2], sy[3]>>
      [] name \in {"z", "theta", "eta"} -> <<sy[1], name, sy[3]>>
      [] name \in {"t", "tau"} -> <<sy[1], sy[2], name>>

CartExact(o) == \A k \in 1..Len(Cart(o)) : IsQ(Cart(o)[k])

SetVerdict(e) ==
    LET pre == Strip(e.pre)  post == Strip(e.post) IN
    IF e.raised # "F" THEN "set-raised"
    ELSE IF ~HasGroup(pre, e.name) THEN "set-on-missing-group"
    ELSE IF e.sameid # "T" THEN "identity-changed"
    ELSE IF System(post) # SysAfterSet(System(pre), e.name) THEN "set-wrong-system"
    ELSE IF post.flavor # pre.flavor THEN "set-changed-flavor"
    ELSE IF IsExact(e.pre) /\ ~HasDirectionFor(pre, e.name) THEN "ok"      \* partner undefined: nothing more is claimed
    ELSE IF IsExact(e.pre) /\ IsExact(e.post) /\ post # AfterSet(pre, e.name, e.arg) THEN "set-post-state-differs"
    ELSE IF IsExact(e.pre) /\ IsExact(e.post) /\ Get(post, e.name) # e.arg THEN "set-does-not-read-back"
    ELSE IF Group(e.name) # "az" /\ e.post.digest_az # e.pre.digest_az THEN "set-touched-azimuthal"
    ELSE IF Group(e.name) # "lon" /\ e.post.digest_lon # e.pre.digest_lon THEN "set-touched-longitudinal"
    ELSE IF Group(e.name) # "tmp" /\ e.post.digest_tmp # e.pre.digest_tmp THEN "set-touched-temporal"
    ELSE "ok"

InPlaceVerdict(e) ==
    LET pre == Strip(e.pre)  post == Strip(e.post) IN
    IF e.raised # "F" THEN "inplace-raised"
    ELSE IF e.sameid # "T" THEN "identity-changed"
    ELSE IF e.sameclass # "T" THEN "class-changed"
    ELSE IF System(post) # System(pre) THEN "inplace-changed-system"
    ELSE IF post.flavor # pre.flavor THEN "inplace-changed-flavor"
    ELSE IF IsExact(e.pre) /\ IsExact(e.post) /\ CartExact(pre) /\ CartExact(post)
            /\ Storable(InPlaceResult(pre, e.kind, e.arg), System(pre))      \* else outside the representable domain
            /\ Cart(post) # InPlaceResult(pre, e.kind, e.arg) THEN "inplace-not-functional"
    ELSE "ok"

BadVerdict(e) ==
    IF e.raised # "T" THEN "bad-operation-did-not-raise"
    ELSE IF e.sameid # "T" THEN "identity-changed"
    ELSE IF e.post.digest # e.pre.digest THEN "raise-changed-object"
    ELSE "ok"

Verdict(e) == IF e.kind = "set" THEN SetVerdict(e)
              ELSE IF e.kind \in InPlaceKinds THEN InPlaceVerdict(e)
              ELSE IF e.kind \in BadKinds THEN BadVerdict(e)
              ELSE "unknown-event-kind"
\* consecutive events of one trace: the state is not changed between calls
Continuity(k) == k > 1 /\ Events[k].tid = Events[k - 1].tid => Events[k].pre.digest = Events[k - 1].post.digest

TraceInit == i = 1 /\ obj = Strip(Events[1].pre) /\ hist = <<>> /\ start = obj
TraceNext == /\ i <= Len(Events)
             /\ LET e == Events[i]
                    v == IF Continuity(i) THEN Verdict(e) ELSE "state-changed-between-calls"
                IN  /\ (v # "ok" => PrintT("@@VERDICT " \o ToJson([line |-> i, tid |-> e.tid, seq |-> e.seq, verdict |-> v])))
                    /\ TLCSet(1, TLCGet(1) + (IF v = "ok" THEN 1 ELSE 0))
             /\ i' = i + 1
             /\ obj' = IF i < Len(Events) THEN Strip(Events[i + 1].pre) ELSE obj
             /\ UNCHANGED <<hist, start>>
TraceSpec == TraceInit /\ [][TraceNext]_tvars

\* every line of the trace was consumed and judged
AllConsumed == i = Len(Events) + 1 => PrintT("@@SUMMARY " \o ToJson([events |-> Len(Events), accepted |-> TLCGet(1)]))
ASSUME TLCSet(1, 0)
=============================================================================
