---------------------------- MODULE SessionTrace ----------------------------
(***************************************************************************)
(* code -> spec: frame conditions (C16) and process-state conditions       *)
(* (C20) on recorded sessions.  A session is a sequence of public calls    *)
(* issued by one thread; the tracer logs, per call, bit-level digests of   *)
(* every operand before and after, the fingerprint of the process state    *)
(* before and after (NumPy error mode, warnings filters, print options,    *)
(* Awkward behavior registry, vector's registration flag), whether the     *)
(* call returned or raised, and a per-thread sequence number.              *)
(*                                                                         *)
(* The specification's step for a call that is not an assignment /         *)
(* in-place operator is   UNCHANGED <<operands, glob>> ; for a Register    *)
(* call only the registries may change, and a second Register changes      *)
(* nothing.  Verdicts are total ("@@VERDICT").                             *)
(***************************************************************************)
EXTENDS Integers, Sequences, TLC, Json, IOUtils, TLCExt

Events == ndJsonDeserialize(IOEnv.TRACE_FILE)

VARIABLE i

RegisterKinds == {"register_awkward", "register_numba"}
\* the part of the process state that no call - not even Register - may change
Core(g) == [err |-> g.err, filters |-> g.filters, printopts |-> g.printopts]

\* C16: a call that is not an assignment / in-place operator leaves its operands bit-identical
OperandVerdict(e) == IF e.mutating = "F" /\ e.pre # e.post THEN "operand-modified" ELSE "ok"
\* C20: the process state is unchanged; Register may change the registries only, idempotently
GlobalVerdict(e) ==
    IF e.kind \notin RegisterKinds /\ e.gpre # e.gpost THEN
        (IF Core(e.gpre) # Core(e.gpost) THEN
             (IF e.gpre.err # e.gpost.err THEN "numpy-error-state-changed"
              ELSE IF e.gpre.filters # e.gpost.filters THEN "warnings-filters-changed" ELSE "print-options-changed")
         ELSE IF e.gpre.registry # e.gpost.registry THEN "behavior-registry-changed" ELSE "registration-flag-changed")
    ELSE IF e.kind \in RegisterKinds /\ Core(e.gpre) # Core(e.gpost) THEN "register-changed-core-state"
    ELSE IF e.kind = "register_awkward" /\ e.gpre.registered = "T" /\ e.gpre # e.gpost THEN "register-not-idempotent"
    ELSE IF e.kind = "register_awkward" /\ e.gpost.registered # "T" THEN "register-did-not-register"
    ELSE "ok"
\* between two consecutive calls of one thread nothing happens to the process state
Continuity(k) == k > 1 /\ Events[k].tid = Events[k - 1].tid /\ Events[k].thread = Events[k - 1].thread
                 => Events[k].gpre = Events[k - 1].gpost

Init == i = 1
Next == /\ i <= Len(Events)
        /\ LET e == Events[i]
               v == IF Continuity(i) THEN GlobalVerdict(e) ELSE "state-changed-between-calls"
               w == OperandVerdict(e)
           IN  /\ (v # "ok" => PrintT("@@VERDICT " \o ToJson([line |-> i, tid |-> e.tid, seq |-> e.seq, verdict |-> v])))
               /\ (w # "ok" => PrintT("@@VERDICT " \o ToJson([line |-> i, tid |-> e.tid, seq |-> e.seq, verdict |-> w])))
               /\ TLCSet(1, TLCGet(1) + (IF v = "ok" /\ w = "ok" THEN 1 ELSE 0))
        /\ i' = i + 1
TraceSpec == Init /\ [][Next]_i
AllConsumed == i = Len(Events) + 1 => PrintT("@@SUMMARY " \o ToJson([events |-> Len(Events), accepted |-> TLCGet(1)]))
ASSUME TLCSet(1, 0)
=============================================================================
