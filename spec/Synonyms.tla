----------------------------- MODULE Synonyms -----------------------------
(***************************************************************************)
(* C14: the momentum names are exact synonyms of the geometric names.      *)
(* The model is the synonym table itself; a state is one use of one        *)
(* synonym (read, assign, convert, construct, index) on one backend for    *)
(* one coordinate system.  The required effect of using the synonym is, by *)
(* definition, the effect of using the geometric name - bit for bit.  TLC  *)
(* enumerates the whole table x systems x backends and checks that the     *)
(* table is functional and closed; every state is executed against the     *)
(* library ("@@SYN").                                                      *)
(***************************************************************************)
EXTENDS Integers, Sequences, FiniteSets, TLC, Json

\* read-only property synonyms:  <<synonym, geometric name, least dimension>>
Getters == { <<"px", "x", 2>>, <<"py", "y", 2>>, <<"pt", "rho", 2>>, <<"pt2", "rho2", 2>>,
             <<"pz", "z", 3>>, <<"p", "mag", 3>>, <<"p2", "mag2", 3>>, <<"pseudorapidity", "eta", 3>>,
             <<"E", "t", 4>>, <<"e", "t", 4>>, <<"energy", "t", 4>>,
             <<"E2", "t2", 4>>, <<"e2", "t2", 4>>, <<"energy2", "t2", 4>>,
             <<"M", "tau", 4>>, <<"m", "tau", 4>>, <<"mass", "tau", 4>>,
             <<"M2", "tau2", 4>>, <<"m2", "tau2", 4>>, <<"mass2", "tau2", 4>>,
             \* families that only exist on momentum vectors: mutually identical
             <<"et", "Et", 4>>, <<"transverse_energy", "Et", 4>>,
             <<"et2", "Et2", 4>>, <<"transverse_energy2", "Et2", 4>>,
             <<"mt", "Mt", 4>>, <<"transverse_mass", "Mt", 4>>,
             <<"mt2", "Mt2", 4>>, <<"transverse_mass2", "Mt2", 4>> }
\* assignable synonyms (object backend setters, NumPy / Awkward fields)
Setters == { <<"px", "x", 2>>, <<"py", "y", 2>>, <<"pt", "rho", 2>>, <<"pz", "z", 3>>,
             <<"E", "t", 4>>, <<"e", "t", 4>>, <<"energy", "t", 4>>,
             <<"M", "tau", 4>>, <<"m", "tau", 4>>, <<"mass", "tau", 4>> }
\* conversions:  <<momentum spelling, geometric spelling, dimension of the target>>
Conversions == { <<"to_pxpy", "to_xy", 2>>, <<"to_ptphi", "to_rhophi", 2>>,
                 <<"to_pxpypz", "to_xyz", 3>>, <<"to_pxpytheta", "to_xytheta", 3>>, <<"to_pxpyeta", "to_xyeta", 3>>,
                 <<"to_ptphipz", "to_rhophiz", 3>>, <<"to_ptphitheta", "to_rhophitheta", 3>>, <<"to_ptphieta", "to_rhophieta", 3>>,
                 <<"to_pxpypzenergy", "to_xyzt", 4>>, <<"to_pxpythetaenergy", "to_xythetat", 4>>,
                 <<"to_pxpyetaenergy", "to_xyetat", 4>>, <<"to_pxpypzmass", "to_xyztau", 4>>,
                 <<"to_pxpythetamass", "to_xythetatau", 4>>, <<"to_pxpyetamass", "to_xyetatau", 4>>,
                 <<"to_ptphipzenergy", "to_rhophizt", 4>>, <<"to_ptphithetaenergy", "to_rhophithetat", 4>>,
                 <<"to_ptphietaenergy", "to_rhophietat", 4>>, <<"to_ptphipzmass", "to_rhophiztau", 4>>,
                 <<"to_ptphithetamass", "to_rhophithetatau", 4>>, <<"to_ptphietamass", "to_rhophietatau", 4>> }

\* keyword synonyms of the dimension-raising conversions to_Vector3D / to_Vector4D / to_3D / to_4D:
\*   <<momentum spelling, geometric spelling, group>>
Keywords == { <<"pz", "z", "lon">>, <<"e", "t", "tmp">>, <<"E", "t", "tmp">>, <<"energy", "t", "tmp">>,
              <<"m", "tau", "tmp">>, <<"M", "tau", "tmp">>, <<"mass", "tau", "tmp">> }

Az == {"xy", "rhophi"}   Lon == {"z", "theta", "eta"}   Tmp == {"t", "tau"}
Systems == { <<a>> : a \in Az } \cup { <<a, l>> : a \in Az, l \in Lon } \cup { <<a, l, t>> : a \in Az, l \in Lon, t \in Tmp }
Backends == {"obj", "np", "akarr", "akrec", "sympy"}

VARIABLE u
AzNames(a) == IF a = "xy" THEN {"x", "y"} ELSE {"rho", "phi"}
Stored(q) == AzNames(q[1]) \cup (IF Len(q) > 1 THEN {q[2]} ELSE {}) \cup (IF Len(q) > 2 THEN {q[3]} ELSE {})
SysFrom(d) == { q \in Systems : Len(q) + 1 >= d }
Uses == UNION { { [use |-> "get", syn |-> g[1], geo |-> g[2], sys |-> sy, backend |-> b] : sy \in SysFrom(g[3]), b \in Backends } : g \in Getters }
        \cup UNION { { [use |-> "set", syn |-> g[1], geo |-> g[2], sys |-> sy, backend |-> b] : sy \in SysFrom(g[3]), b \in {"obj", "np", "sympy"} } : g \in Setters }
        \cup { [use |-> "conv", syn |-> g[1], geo |-> g[2], sys |-> sy, backend |-> b] : g \in Conversions, sy \in Systems, b \in Backends }
        \cup { [use |-> "twin", syn |-> "momentum", geo |-> "generic", sys |-> sy, backend |-> b] : sy \in Systems, b \in Backends }
        \* a keyword synonym is usable when the source lacks that group
        \cup { [use |-> "kw", syn |-> k[1], geo |-> k[2], sys |-> sy, backend |-> b]
                : k \in Keywords, sy \in { q \in Systems : Len(q) < 3 }, b \in Backends \ {"sympy"} }
        \* Awkward records whose *fields* carry the momentum name (built by ak.zip / with_name, which does not
        \* rename): every operation must treat the field as the geometric coordinate it is a synonym of
        \cup UNION { { [use |-> "field", syn |-> g[1], geo |-> g[2], sys |-> sy, backend |-> b]
                        : sy \in { q \in Systems : g[2] \in Stored(q) }, b \in {"akarr", "akrec"} } : g \in Setters }
Init == u \in Uses
Next == UNCHANGED u
Spec == Init /\ [][Next]_u
Emit == PrintT("@@SYN " \o ToJson(u))

\* ---- the table is a function (a synonym names exactly one geometric quantity), never maps a
\* geometric name to something else, and setters are a sub-table of getters
Functional == \A g1 \in Getters, g2 \in Getters : g1[1] = g2[1] => g1 = g2
NoGeometricOnLeft == \A g \in Getters \cup Setters : g[1] \notin {"x", "y", "rho", "phi", "z", "theta", "eta", "t", "tau"}
SettersAreGetters == Setters \subseteq Getters
ConversionsFunctional == \A c1 \in Conversions, c2 \in Conversions : (c1[1] = c2[1] \/ c1[2] = c2[2]) => c1 = c2
KeywordsFunctional == \A k1 \in Keywords, k2 \in Keywords : k1[1] = k2[1] => k1 = k2
TableOK == KeywordsFunctional /\ Functional /\ NoGeometricOnLeft /\ SettersAreGetters /\ ConversionsFunctional /\ Cardinality(Conversions) = 20
=============================================================================
