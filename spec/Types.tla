------------------------------- MODULE Types -------------------------------
(***************************************************************************)
(* Property-level type rules of C05: for every public method and every     *)
(* descriptor of its vector operands, the required outcome - TypeError, a  *)
(* scalar/boolean collection, or a vector with a required backend, flavor  *)
(* and dimension.  A descriptor is <<backend, flavor, dim>>; the           *)
(* coordinate system is a separate axis of the lattice that the rules do   *)
(* not depend on (the result system must only be a function of the         *)
(* operands' systems: the harness learns that function and rejects         *)
(* inconsistency).                                                         *)
(*                                                                         *)
(* TLC enumerates the whole finite lattice (state = one call) and checks   *)
(* the structural invariants below; every state is printed ("@@TYPE") and  *)
(* executed against the real library on small containers.                  *)
(***************************************************************************)
EXTENDS Integers, Sequences, TLC, Json

Backends == {"obj", "np", "akarr", "akrec"}
Flavors  == {"generic", "momentum"}
DimsAll  == {2, 3, 4}
Descs    == Backends \X Flavors \X DimsAll
NoOperand == <<"none", "none", 0>>

\* backend priority  object < NumPy < Awkward
Prio(b) == IF b = "obj" THEN 1 ELSE IF b = "np" THEN 2 ELSE 3
\* single vectors (objects, Awkward records) broadcast against arrays
ArrayLike(b) == b \in {"np", "akarr"}
\* the container of a result computed from operands of backends b1 (and b2): the library of
\* the higher-priority one; an Awkward result is an array as soon as one operand is an
\* array (NumPy or Awkward), a record otherwise
Higher(b1, b2) == IF b2 = "none" THEN b1
                  ELSE IF Prio(b1) < 3 /\ Prio(b2) < 3 THEN (IF Prio(b1) >= Prio(b2) THEN b1 ELSE b2)
                  ELSE IF ArrayLike(b1) \/ ArrayLike(b2) THEN "akarr" ELSE "akrec"
Mom(f1, f2) == IF f1 = "momentum" \/ f2 = "momentum" THEN "momentum" ELSE "generic"

\* ---------------------------------------------------------------- methods
\* kind:   "u"  unary (possibly with scalar parameters)
\*         "b"  binary, second vector operand counted for backend and flavor
\*         "s"  binary, second vector operand secondary (rotate_axis' axis, like's pattern)
\* res:    "vec" | "num" | "bool"
\* mindim: least dimension of self for which the method exists
\* rule:   dimension rule of the second operand
\*         "same" (TypeError unless equal dimensions), "any", "d3" (must be 3-D),
\*         "d4", "d34" (3-D or 4-D), "both3" (self and other 3-D)
\* rdim:   result dimension: 0 = dimension of self, otherwise fixed; -1 = dimension of other
M(name, kind, res, mindim, rule, rdim) ==
    [name |-> name, kind |-> kind, res |-> res, mindim |-> mindim, rule |-> rule, rdim |-> rdim]

Methods == {
    \* arithmetic and comparison: same dimension required
    M("add", "b", "vec", 2, "same", 0), M("subtract", "b", "vec", 2, "same", 0),
    M("dot", "b", "num", 2, "same", 0), M("equal", "b", "bool", 2, "same", 0),
    M("not_equal", "b", "bool", 2, "same", 0), M("isclose", "b", "bool", 2, "same", 0),
    M("is_parallel", "b", "bool", 2, "same", 0), M("is_antiparallel", "b", "bool", 2, "same", 0),
    M("is_perpendicular", "b", "bool", 2, "same", 0),
    \* operators stand for methods
    M("op_add", "b", "vec", 2, "same", 0), M("op_sub", "b", "vec", 2, "same", 0),
    M("op_matmul", "b", "num", 2, "same", 0), M("op_eq", "b", "bool", 2, "same", 0),
    M("op_ne", "b", "bool", 2, "same", 0),
    \* mixed-dimension scalars
    M("deltaphi", "b", "num", 2, "any", 0),
    M("deltaangle", "b", "num", 3, "d34", 0), M("deltaeta", "b", "num", 3, "d34", 0),
    M("deltaR", "b", "num", 3, "d34", 0), M("deltaR2", "b", "num", 3, "d34", 0),
    M("deltaRapidityPhi", "b", "num", 4, "d4", 0), M("deltaRapidityPhi2", "b", "num", 4, "d4", 0),
    \* cross: 3-D x 3-D only, 3-D result
    M("cross", "b", "vec", 3, "both3", 3),
    \* boosts
    M("boost_p4", "b", "vec", 4, "d4", 0), M("boostCM_of_p4", "b", "vec", 4, "d4", 0),
    M("boost_beta3", "b", "vec", 4, "d3", 0), M("boostCM_of_beta3", "b", "vec", 4, "d3", 0),
    M("boost", "b", "vec", 4, "d34", 0), M("boostCM_of", "b", "vec", 4, "d34", 0),
    \* secondary vector argument
    M("rotate_axis", "s", "vec", 3, "d3", 0), M("like", "s", "vec", 2, "any", -1),
    \* unary vector-valued
    M("unit", "u", "vec", 2, "none", 0), M("scale", "u", "vec", 2, "none", 0),
    M("op_mul", "u", "vec", 2, "none", 0), M("op_rmul", "u", "vec", 2, "none", 0),
    M("op_div", "u", "vec", 2, "none", 0), M("op_neg", "u", "vec", 2, "none", 0),
    M("op_pos", "u", "vec", 2, "none", 0),
    M("scale2D", "u", "vec", 2, "none", 0), M("scale3D", "u", "vec", 3, "none", 0),
    M("scale4D", "u", "vec", 4, "none", 0), M("neg2D", "u", "vec", 2, "none", 0),
    M("neg3D", "u", "vec", 3, "none", 0), M("neg4D", "u", "vec", 4, "none", 0),
    M("rotateZ", "u", "vec", 2, "none", 0), M("rotateX", "u", "vec", 3, "none", 0),
    M("rotateY", "u", "vec", 3, "none", 0), M("rotate_euler", "u", "vec", 3, "none", 0),
    M("rotate_nautical", "u", "vec", 3, "none", 0), M("rotate_quaternion", "u", "vec", 3, "none", 0),
    M("transform2D", "u", "vec", 2, "none", 0), M("transform3D", "u", "vec", 3, "none", 0),
    M("transform4D", "u", "vec", 4, "none", 0),
    M("boostX_beta", "u", "vec", 4, "none", 0), M("boostY_gamma", "u", "vec", 4, "none", 0),
    M("boostZ_beta", "u", "vec", 4, "none", 0),
    M("to_beta3", "u", "vec", 4, "none", 3),
    \* projections / embeddings as named
    M("to_Vector2D", "u", "vec", 2, "none", 2), M("to_Vector3D", "u", "vec", 2, "none", 3),
    M("to_Vector4D", "u", "vec", 2, "none", 4), M("to_2D", "u", "vec", 2, "none", 2),
    M("to_3D", "u", "vec", 2, "none", 3), M("to_4D", "u", "vec", 2, "none", 4),
    M("to_xy", "u", "vec", 2, "none", 2), M("to_rhophi", "u", "vec", 2, "none", 2),
    M("to_ptphi", "u", "vec", 2, "none", 2),
    M("to_xyz", "u", "vec", 2, "none", 3), M("to_rhophieta", "u", "vec", 2, "none", 3),
    M("to_pxpytheta", "u", "vec", 2, "none", 3),
    M("to_xyzt", "u", "vec", 2, "none", 4), M("to_rhophietatau", "u", "vec", 2, "none", 4),
    M("to_ptphietamass", "u", "vec", 2, "none", 4), M("to_xythetat", "u", "vec", 2, "none", 4),
    \* unary scalars / booleans
    M("rho", "u", "num", 2, "none", 0), M("phi", "u", "num", 2, "none", 0), M("x", "u", "num", 2, "none", 0),
    M("eta", "u", "num", 3, "none", 0), M("mag", "u", "num", 3, "none", 0), M("theta", "u", "num", 3, "none", 0),
    M("tau", "u", "num", 4, "none", 0), M("rapidity", "u", "num", 4, "none", 0), M("gamma", "u", "num", 4, "none", 0),
    M("op_abs", "u", "num", 2, "none", 0), M("op_pow2", "u", "num", 2, "none", 0), M("op_pow3", "u", "num", 2, "none", 0),
    M("is_timelike", "u", "bool", 4, "none", 0), M("is_lightlike", "u", "bool", 4, "none", 0) }

DimOK(m, da, db) ==
    CASE m.rule = "none" -> TRUE
      [] m.rule = "same" -> da = db
      [] m.rule = "any" -> TRUE
      [] m.rule = "d3" -> db = 3
      [] m.rule = "d4" -> db = 4
      [] m.rule = "d34" -> db \in {3, 4}
      [] m.rule = "both3" -> da = 3 /\ db = 3

Res(out, bk, fl, dm) == [out |-> out, backend |-> bk, flavor |-> fl, dim |-> dm]

\* The required outcome of  A.m(B)  for descriptors A = <<backend, flavor, dim>>, B likewise
\* (B = NoOperand for unary methods).
Required(m, A, B) ==
    IF A[3] < m.mindim THEN Res("NoSuchMethod", "none", "none", 0)
    ELSE IF m.kind # "u" /\ ~DimOK(m, A[3], B[3]) THEN Res("TypeError", "none", "none", 0)
    ELSE LET counted == m.kind = "b"
             \* a secondary operand does not choose the library, but a record rotated about
             \* an array of axes is necessarily an array of vectors
             bk == IF counted THEN Higher(A[1], B[1])
                   ELSE IF m.kind = "s" /\ A[1] = "akrec" /\ ArrayLike(B[1]) /\ m.name # "like" THEN "akarr"
                   ELSE A[1]
             fl == IF counted THEN Mom(A[2], B[2]) ELSE A[2]
             dm == IF m.rdim = 0 THEN A[3] ELSE IF m.rdim = -1 THEN B[3] ELSE m.rdim
         IN  IF m.res = "vec" THEN Res("vec", bk, fl, dm)
             ELSE Res(m.res, bk, "none", 0)

VARIABLE call
Calls == { [m |-> m.name, kind |-> m.kind, a |-> A, b |-> B, req |-> Required(m, A, B)]
             : m \in Methods, A \in Descs, B \in Descs \cup {NoOperand} }
Init == call \in { c \in Calls : (c.kind = "u") = (c.b = NoOperand) }
Next == UNCHANGED call
Spec == Init /\ [][Next]_call

Emit == PrintT("@@TYPE " \o ToJson(call))

\* ---- structural invariants of the rules themselves (checked by TLC on every state)
\* the result is never of lower priority than a counted operand, and never gains momentum from nowhere
Monotone == call.req.out = "vec" =>
              /\ Prio(call.req.backend) >= Prio(call.a[1])
              /\ (call.req.flavor = "momentum") =
                   (call.a[2] = "momentum" \/ (call.kind = "b" /\ call.b[2] = "momentum"))
\* counted binary rules are symmetric in backend and flavor
Symmetric == call.kind = "b" /\ call.req.out = "vec" =>
              \A m \in Methods : m.name = call.m =>
                 LET r2 == Required(m, <<call.b[1], call.b[2], call.a[3]>>, <<call.a[1], call.a[2], call.b[3]>>)
                 IN  r2.out = "vec" => r2.backend = call.req.backend /\ r2.flavor = call.req.flavor
\* the nine same-dimension operations reject every mixed pairing
SameDimRejects == call.m \in {"add", "subtract", "dot", "equal", "not_equal", "isclose", "is_parallel",
                              "is_antiparallel", "is_perpendicular"} /\ call.a[3] # call.b[3]
                  => call.req.out = "TypeError"
=============================================================================
