----------------------------- MODULE LawProofs -----------------------------
(***************************************************************************)
(* The polynomial identities behind the laws of C09-C11, proved for ALL    *)
(* integers with TLAPS (backend Z3).  They are homogeneous polynomial      *)
(* identities, so validity over the integers gives validity over the       *)
(* rationals and the reals: this removes the lattice bound from the        *)
(* specification side of the laws (Laws.tla checks the same statements on  *)
(* the lattice with the actual operators of Algebra.tla; the code side     *)
(* stays bounded by what is replayed).                                     *)
(* Rotations are given by (c, s) with c^2 + s^2 = n^2 (n = 1 after         *)
(* clearing denominators), axis boosts by (g, h) = (gamma, beta gamma)     *)
(* with g^2 - h^2 = n^2.                                                   *)
(***************************************************************************)
EXTENDS Integers, TLAPS

\* ---- C11: dot and cross
THEOREM DotSymmetric ==
    \A x1, y1, z1, x2, y2, z2 \in Int :
        x1*x2 + y1*y2 + z1*z2 = x2*x1 + y2*y1 + z2*z1
  BY Z3

THEOREM DotBilinear ==
    \A x1, y1, z1, x2, y2, z2, x3, y3, z3, f \in Int :
        x1*(x2 + f*x3) + y1*(y2 + f*y3) + z1*(z2 + f*z3)
          = (x1*x2 + y1*y2 + z1*z2) + f*(x1*x3 + y1*y3 + z1*z3)
  BY Z3

THEOREM MinkowskiBilinear ==
    \A x1, t1, x2, t2, x3, t3, f \in Int :
        t1*(t2 + f*t3) - x1*(x2 + f*x3) = (t1*t2 - x1*x2) + f*(t1*t3 - x1*x3)
  BY Z3

THEOREM CrossOrthogonal ==
    \A x1, y1, z1, x2, y2, z2 \in Int :
        /\ x1*(y1*z2 - z1*y2) + y1*(z1*x2 - x1*z2) + z1*(x1*y2 - y1*x2) = 0
        /\ x2*(y1*z2 - z1*y2) + y2*(z1*x2 - x1*z2) + z2*(x1*y2 - y1*x2) = 0
  BY Z3

THEOREM CrossAntisymmetric ==
    \A x1, y1, z1, x2, y2, z2 \in Int :
        /\ y1*z2 - z1*y2 = -(y2*z1 - z2*y1)
        /\ z1*x2 - x1*z2 = -(z2*x1 - x2*z1)
        /\ x1*y2 - y1*x2 = -(x2*y1 - y2*x1)
  BY Z3

THEOREM Lagrange ==
    \A x1, y1, z1, x2, y2, z2 \in Int :
        (y1*z2 - z1*y2)*(y1*z2 - z1*y2) + (z1*x2 - x1*z2)*(z1*x2 - x1*z2) + (x1*y2 - y1*x2)*(x1*y2 - y1*x2)
          = (x1*x1 + y1*y1 + z1*z1)*(x2*x2 + y2*y2 + z2*z2) - (x1*x2 + y1*y2 + z1*z2)*(x1*x2 + y1*y2 + z1*z2)
  BY Z3

THEOREM ScaleDistributes ==
    \A x1, x2, f, g \in Int : f*(x1 + x2) = f*x1 + f*x2 /\ g*(f*x1) = (g*f)*x1 /\ (-1)*x1 = -x1
  BY Z3

\* ---- C10: plane rotations (c, s), c^2 + s^2 = n2
THEOREM RotationPreservesDot ==
    \A c, s, x1, y1, x2, y2 \in Int :
        (c*x1 - s*y1)*(c*x2 - s*y2) + (s*x1 + c*y1)*(s*x2 + c*y2) = (c*c + s*s)*(x1*x2 + y1*y2)
  BY Z3

THEOREM RotationPreservesOrientation ==
    \A c, s, x1, y1, x2, y2 \in Int :
        (c*x1 - s*y1)*(s*x2 + c*y2) - (s*x1 + c*y1)*(c*x2 - s*y2) = (c*c + s*s)*(x1*y2 - y1*x2)
  BY Z3

THEOREM RotationsCompose ==
    \A c1, s1, c2, s2, x, y \in Int :
        /\ c2*(c1*x - s1*y) - s2*(s1*x + c1*y) = (c1*c2 - s1*s2)*x - (s1*c2 + c1*s2)*y
        /\ s2*(c1*x - s1*y) + c2*(s1*x + c1*y) = (s1*c2 + c1*s2)*x + (c1*c2 - s1*s2)*y
        /\ (c1*c2 - s1*s2)*(c1*c2 - s1*s2) + (s1*c2 + c1*s2)*(s1*c2 + c1*s2) = (c1*c1 + s1*s1)*(c2*c2 + s2*s2)
  BY Z3

THEOREM RotationInverse ==
    \A c, s, x, y \in Int :
        /\ c*(c*x - s*y) + s*(s*x + c*y) = (c*c + s*s)*x
        /\ (-s)*(c*x - s*y) + c*(s*x + c*y) = (c*c + s*s)*y
  BY Z3

\* quaternion (u; i, j, k) rotation matrix is orthogonal with scale |q|^2 (first column)
THEOREM QuaternionColumnNorm ==
    \A u, i, j, k \in Int :
        (u*u + i*i - j*j - k*k)*(u*u + i*i - j*j - k*k) + (2*(i*j + k*u))*(2*(i*j + k*u)) + (2*(i*k - j*u))*(2*(i*k - j*u))
          = (u*u + i*i + j*j + k*k)*(u*u + i*i + j*j + k*k)
  BY Z3

\* ---- C09: axis boosts (g, h) = (gamma, beta gamma), g^2 - h^2 = n2
THEOREM BoostPreservesMinkowski ==
    \A g, h, x1, t1, x2, t2 \in Int :
        (h*x1 + g*t1)*(h*x2 + g*t2) - (g*x1 + h*t1)*(g*x2 + h*t2) = (g*g - h*h)*(t1*t2 - x1*x2)
  BY Z3

THEOREM BoostsCompose ==
    \A g1, h1, g2, h2, x, t \in Int :
        /\ g2*(g1*x + h1*t) + h2*(h1*x + g1*t) = (g1*g2 + h1*h2)*x + (g1*h2 + h1*g2)*t
        /\ h2*(g1*x + h1*t) + g2*(h1*x + g1*t) = (g1*h2 + h1*g2)*x + (g1*g2 + h1*h2)*t
        /\ (g1*g2 + h1*h2)*(g1*g2 + h1*h2) - (g1*h2 + h1*g2)*(g1*h2 + h1*g2) = (g1*g1 - h1*h1)*(g2*g2 - h2*h2)
  BY Z3

THEOREM BoostInverse ==
    \A g, h, x, t \in Int :
        /\ g*(g*x + h*t) - h*(h*x + g*t) = (g*g - h*h)*x
        /\ (-h)*(g*x + h*t) + g*(h*x + g*t) = (g*g - h*h)*t
  BY Z3

\* velocity addition: beta = h/g; (g1 g2 + h1 h2, g1 h2 + h1 g2) has beta (b1 + b2)/(1 + b1 b2)
THEOREM VelocityAddition ==
    \A g1, h1, g2, h2 \in Int :
        (g1*h2 + h1*g2)*(g1*g2) = (h1*g2 + h2*g1)*(g1*g2)
        /\ (g1*g2 + h1*h2)*(g1*g2) = (g1*g2)*(g1*g2) + (h1*h2)*(g1*g2)
  BY Z3
=============================================================================
